(** C01, the rest of the alphabet: groupBy().agg() used as a step, unpivot and dropDuplicates(subset).

    These three methods emit SQL that a SELECT block of [Sql.Block] cannot express (GROUP BY with aggregates,
    UNION ALL of projections of one CTE, ROW_NUMBER() OVER (PARTITION BY ..)).  A compiled program is therefore a
    list of STAGES (closed CTEs: plain blocks and the three new shapes) followed by a C01 state over the result of
    the stages: after one of the three methods the state is again an ordinary C01 state (open pass-through block)
    whose input is the stage's result, so the chain theorem of [ChainExtProof] applies unchanged to whatever follows.

    My definitions of the engine's evaluation of the three shapes ([eval_group], [eval_union], [eval_window]) are
    validated against DuckDB by the correspondence check only; they fix one deterministic representative of what
    the engine may return (groups in first-occurrence order, UNION ALL branch after branch, ROW_NUMBER in input
    order within a partition).  What PySpark leaves open is stated separately: [unpivot_perm] (the branch-major
    result is a permutation of PySpark's row-major one) and [window_pick_valid] (whatever row the engine numbers 1
    in each partition, the result is a valid dropDuplicates). *)
From SF Require Import Model.Chain Model.ChainProof Model.ChainG Model.ChainExt Model.ChainExtProof.
From Coq Require Import Lia Permutation.
Open Scope Z_scope.

Inductive stage :=
| SB (b : block)
| SG (ws : list expr) (keys : list string) (aggs : list (aggfn * string * string))
        (* SELECT keys, aggs FROM prev WHERE ws GROUP BY keys *)
| SU (parts : list (list (expr * string)))
        (* SELECT part_1 FROM prev UNION ALL SELECT part_2 FROM prev ... *)
| SW (ws : list expr) (items : list (expr * string)) (part : list string) (name : string).
        (* SELECT items, ROW_NUMBER() OVER (PARTITION BY part ORDER BY part) AS name FROM prev WHERE ws *)

(** GROUP BY: one group per distinct key (NULL is an ordinary key value), members in input order; no key = one
    group, also over an empty input *)
Definition sql_groups (cs keys : list string) (R : list row) : list (row * list row) :=
  match keys with
  | [] => [([], R)]
  | _ => map (fun k => (k, filter (fun r => row_eqb (key_of cs keys r) k) R)) (dedup (map (key_of cs keys) R))
  end.
Definition agg_row (cs : list string) (aggs : list (aggfn * string * string)) (g : row * list row) : row :=
  fst g ++ map (fun a : aggfn * string * string => agg_val cs (fst (fst a)) (snd (fst a)) (snd g)) aggs.
Definition eval_group ws keys aggs (F : frame) : frame :=
  let cs := cols F in
  mkFrame (keys ++ map snd aggs) (map (agg_row cs aggs) (sql_groups cs keys (filter (all_hold cs ws) (rows F)))).

Definition eval_union (parts : list (list (expr * string))) (F : frame) : frame :=
  mkFrame (match parts with p :: _ => out_cols p | [] => [] end)
          (flat_map (fun items => map (proj (cols F) items) (rows F)) parts).

(** ROW_NUMBER() over partitions whose ORDER BY is the partition key itself (every row of a partition ties): the
    representative numbers the rows of a partition in input order. [pre] = keys of the rows already numbered *)
Fixpoint rownums (kf : row -> row) (pre : list row) (l : list row) : list Z :=
  match l with
  | [] => []
  | x :: l' => (1 + Z.of_nat (List.length (filter (row_eqb (kf x)) pre))) :: rownums kf (kf x :: pre) l'
  end.
Definition eval_window ws items part name (F : frame) : frame :=
  let cs := cols F in
  let R := filter (all_hold cs ws) (rows F) in
  mkFrame (out_cols items ++ [name])
          (map (fun p : row * Z => proj cs items (fst p) ++ [VInt (snd p)]) (combine R (rownums (key_of cs part) [] R))).

Definition eval_stage (s : stage) (F : frame) : frame :=
  match s with
  | SB b => eval_block b F
  | SG ws keys aggs => eval_group ws keys aggs F
  | SU parts => eval_union parts F
  | SW ws items part name => eval_window ws items part name F
  end.
Definition eval_stages (ss : list stage) (input : frame) : frame := fold_left (fun fr s => eval_stage s fr) ss input.

Lemma eval_stages_app ss1 ss2 input : eval_stages (ss1 ++ ss2) input = eval_stages ss2 (eval_stages ss1 input).
Proof. unfold eval_stages. apply fold_left_app. Qed.
Lemma eval_stages_blocks bs input : eval_stages (map SB bs) input = fold_left (fun fr b => eval_block b fr) bs input.
Proof. revert input. induction bs as [|b bs IH]; intro input; simpl; [reflexivity | apply IH]. Qed.

(** * dedup: first occurrences *)
Lemma existsb_row_In k l : existsb (row_eqb k) l = true <-> In k l.
Proof.
  rewrite existsb_exists. split.
  - intros [x [Hx E]]. apply row_eqb_eq in E. subst. exact Hx.
  - intro H. exists k. split; [exact H | apply row_eqb_eq; reflexivity].
Qed.
Lemma existsb_row_false k l : existsb (row_eqb k) l = false <-> ~ In k l.
Proof.
  split.
  - intros E H. apply existsb_row_In in H. congruence.
  - intro H. destruct (existsb (row_eqb k) l) eqn:E; [|reflexivity]. apply existsb_row_In in E. contradiction.
Qed.

Lemma dedup_on_spec {A} (kf : A -> row) l : forall seen x,
  In x (dedup_on kf seen l) -> In x l /\ ~ In (kf x) seen.
Proof.
  induction l as [|y l IH]; intros seen x H; simpl in H; [contradiction|].
  destruct (existsb (row_eqb (kf y)) seen) eqn:E.
  - destruct (IH _ _ H). split; [right|]; assumption.
  - destruct H as [<-|H].
    + split; [left; reflexivity | apply existsb_row_false; exact E].
    + destruct (IH _ _ H) as [H1 H2]. split; [right; exact H1|]. intro Hs. apply H2. right. exact Hs.
Qed.

Lemma dedup_nodup l : forall seen, NoDup (dedup_on (fun r : row => r) seen l).
Proof.
  induction l as [|y l IH]; intro seen; simpl; [constructor|].
  destruct (existsb (row_eqb y) seen); [apply IH|].
  constructor; [|apply IH]. intro H. apply dedup_on_spec in H. destruct H as [_ H]. apply H. left. reflexivity.
Qed.

Lemma dedup_complete l : forall seen x, In x l -> ~ In x seen -> In x (dedup_on (fun r : row => r) seen l).
Proof.
  induction l as [|y l IH]; intros seen x Hin Hs; simpl; [contradiction|].
  destruct (existsb (row_eqb y) seen) eqn:E.
  - destruct Hin as [->|Hin]; [apply existsb_row_In in E; contradiction | apply IH; assumption].
  - destruct (row_eq_dec y x) as [->|Hne]; [left; reflexivity|]. right.
    destruct Hin as [Hin|Hin]; [contradiction|]. apply IH; [exact Hin|].
    intros [H|H]; [contradiction | exact (Hs H)].
Qed.

Lemma dedup_snoc l x : forall seen,
  dedup_on (fun r : row => r) seen (l ++ [x]) =
  dedup_on (fun r : row => r) seen l ++ (if existsb (row_eqb x) seen || existsb (row_eqb x) l then [] else [x]).
Proof.
  induction l as [|y l IH]; intro seen; simpl.
  - rewrite orb_false_r. destruct (existsb (row_eqb x) seen); reflexivity.
  - destruct (existsb (row_eqb y) seen) eqn:E.
    + rewrite IH. f_equal. destruct (row_eqb x y) eqn:Exy; [|reflexivity].
      apply row_eqb_eq in Exy. subst. rewrite E. reflexivity.
    + simpl. rewrite IH. f_equal. f_equal. simpl.
      destruct (row_eqb x y), (existsb (row_eqb x) seen); reflexivity.
Qed.

Lemma dedup_on_map {A} (kf : row -> row) (P : A -> row) l : forall seen,
  dedup_on kf seen (map P l) = map P (dedup_on (fun a => kf (P a)) seen l).
Proof.
  induction l as [|y l IH]; intro seen; simpl; [reflexivity|].
  destruct (existsb (row_eqb (kf (P y))) seen); simpl; rewrite IH; reflexivity.
Qed.
Lemma dedup_on_ext_in {A} (k1 k2 : A -> row) l : (forall a, In a l -> k1 a = k2 a) ->
  forall seen, dedup_on k1 seen l = dedup_on k2 seen l.
Proof.
  induction l as [|y l IH]; intros H seen; simpl; [reflexivity|].
  rewrite (H y) by (left; reflexivity).
  destruct (existsb (row_eqb (k2 y)) seen); [|f_equal]; apply IH; intros; apply H; right; assumption.
Qed.

(** * GROUP BY (distinct keys, members by filter) is PySpark's groupBy (groups built row by row) *)
Section Groups.
  Variable kf : row -> row.
  Definition by_keys (R : list row) (ks : list row) : list (row * list row) :=
    map (fun k => (k, filter (fun r => row_eqb (kf r) k) R)) ks.

  Lemma add_group_by_keys R r ks :
    NoDup ks -> (forall k, In k ks -> In k (map kf R)) ->
    add_group (kf r) r (by_keys R ks) =
    if existsb (row_eqb (kf r)) ks then by_keys (R ++ [r]) ks else by_keys (R ++ [r]) ks ++ [(kf r, [r])].
  Proof.
    intros Hnd _. induction Hnd as [|k ks Hk Hnd IH]; simpl; [reflexivity|].
    assert (Hf : forall k', filter (fun r0 => row_eqb (kf r0) k') (R ++ [r]) =
                            filter (fun r0 => row_eqb (kf r0) k') R ++ (if row_eqb (kf r) k' then [r] else [])).
    { intro k'. rewrite filter_app. reflexivity. }
    destruct (row_eqb (kf r) k) eqn:E.
    - simpl. unfold by_keys. cbn [map]. rewrite Hf, E. f_equal.
      apply map_ext_in. intros k' Hk'. rewrite Hf.
      destruct (row_eqb (kf r) k') eqn:E'; [|rewrite app_nil_r; reflexivity].
      apply row_eqb_eq in E, E'. subst k k'. contradiction.
    - simpl. rewrite IH. unfold by_keys at 3 4. cbn [map]. rewrite Hf, E, app_nil_r.
      destruct (existsb (row_eqb (kf r)) ks); reflexivity.
  Qed.

  Lemma groups_by_keys R :
    fold_left (fun gs r => add_group (kf r) r gs) R [] = by_keys R (dedup (map kf R)).
  Proof.
    induction R as [|r R IH] using rev_ind; [reflexivity|].
    rewrite fold_left_app. cbn [fold_left]. rewrite IH.
    rewrite add_group_by_keys.
    - rewrite map_app. cbn [map]. unfold dedup. rewrite dedup_snoc. cbn [existsb orb].
      destruct (existsb (row_eqb (kf r)) (dedup_on (fun r0 => r0) [] (map kf R))) eqn:E.
      + assert (E2 : existsb (row_eqb (kf r)) (map kf R) = true).
        { apply existsb_row_In. apply existsb_row_In in E. apply dedup_on_spec in E. tauto. }
        rewrite E2, app_nil_r. reflexivity.
      + assert (E2 : existsb (row_eqb (kf r)) (map kf R) = false).
        { apply existsb_row_false. intro H. apply existsb_row_false in E. apply E.
          apply dedup_complete; [exact H | tauto]. }
        rewrite E2. unfold by_keys. rewrite map_app. cbn [map]. f_equal. f_equal. f_equal.
        rewrite filter_app. cbn [filter]. rewrite (proj2 (row_eqb_eq _ _) eq_refl).
        replace (filter (fun r0 => row_eqb (kf r0) (kf r)) R) with (@nil row); [reflexivity|].
        symmetry. apply filter_all_false. intros a Ha.
        destruct (row_eqb (kf a) (kf r)) eqn:Ea; [|reflexivity].
        apply row_eqb_eq in Ea. apply existsb_row_false in E2. exfalso. apply E2. rewrite <- Ea. apply in_map. exact Ha.
    - apply dedup_nodup.
    - intros k Hk. apply dedup_on_spec in Hk. tauto.
  Qed.
End Groups.

Lemma groups_sql cs keys R : keys <> [] -> groups cs keys R = sql_groups cs keys R.
Proof.
  intro H. unfold groups, sql_groups. rewrite groups_by_keys. destruct keys; [contradiction | reflexivity].
Qed.

(** the GROUP BY stage over a frame is PySpark's groupBy(keys).agg(aggs) of that frame *)
Theorem eval_group_spec keys aggs F : eval_group [] keys aggs F = spec_agg keys aggs F.
Proof.
  unfold eval_group, spec_agg. cbn [all_hold forallb]. rewrite filter_true by reflexivity. f_equal.
  destruct keys as [|k keys]; [reflexivity|]. rewrite groups_sql by discriminate. reflexivity.
Qed.

(** * UNION ALL of per-column projections vs PySpark's row-major unpivot *)
Lemma flat_map_cons_perm {A B} (g : A -> B) (h : A -> list B) l :
  Permutation (map g l ++ flat_map h l) (flat_map (fun b => g b :: h b) l).
Proof.
  induction l as [|b l IH]; simpl; [constructor|].
  constructor. rewrite Permutation_app_swap_app. apply Permutation_app_head. exact IH.
Qed.
Lemma flat_map_transpose {A B C} (f : A -> B -> C) (la : list A) (lb : list B) :
  Permutation (flat_map (fun a => map (f a) lb) la) (flat_map (fun b => map (fun a => f a b) la) lb).
Proof.
  induction la as [|a la IH]; simpl.
  - induction lb as [|b lb IHb]; simpl; [constructor | exact IHb].
  - rewrite IH. apply flat_map_cons_perm.
Qed.

Definition unpivot_part (ids : list string) (var vl v : string) : list (expr * string) :=
  passthrough ids ++ [(ELit (VStr v), var); (ECol v, vl)].
Definition unpivot_parts (ids vals : list string) (var vl : string) := map (unpivot_part ids var vl) vals.
Definition unpivot_row (cs ids : list string) (v : string) (r : row) : row :=
  key_of cs ids r ++ [VStr v; eval cs r (ECol v)].
(** the branch-major representative of unpivot's result *)
Definition unpivot_cm (ids vals : list string) (var vl : string) (F : frame) : frame :=
  mkFrame (ids ++ [var; vl]) (flat_map (fun v => map (unpivot_row (cols F) ids v) (rows F)) vals).

Lemma proj_unpivot_part cs ids var vl v r : proj cs (unpivot_part ids var vl v) r = unpivot_row cs ids v r.
Proof.
  unfold proj, unpivot_part, unpivot_row, key_of, passthrough. rewrite map_app, map_map. reflexivity.
Qed.

Theorem eval_union_unpivot ids vals var vl F :
  vals <> [] -> eval_union (unpivot_parts ids vals var vl) F = unpivot_cm ids vals var vl F.
Proof.
  intro Hv. unfold eval_union, unpivot_cm, unpivot_parts. f_equal.
  - destruct vals as [|v vals]; [contradiction|]. cbn [map]. unfold unpivot_part.
    rewrite out_cols_app, out_cols_passthrough. reflexivity.
  - rewrite flat_map_concat_map, map_map, <- flat_map_concat_map.
    apply flat_map_ext. intro v. apply map_ext. intro r. apply proj_unpivot_part.
Qed.

Theorem unpivot_perm ids vals var vl F :
  cols (unpivot_cm ids vals var vl F) = cols (spec_x (XUnpivot ids vals var vl) F) /\
  Permutation (rows (unpivot_cm ids vals var vl F)) (rows (spec_x (XUnpivot ids vals var vl) F)).
Proof.
  split; [reflexivity|]. cbn [unpivot_cm spec_x rows].
  apply (flat_map_transpose (fun v r => unpivot_row (cols F) ids v r)).
Qed.

(** * ROW_NUMBER() = 1 keeps first occurrences *)
Lemma filter_len0 {A} (f : A -> bool) l : (List.length (filter f l) =? 0)%nat = negb (existsb f l).
Proof. induction l as [|a l IH]; simpl; [reflexivity|]. destruct (f a); simpl; [reflexivity | exact IH]. Qed.

Lemma one_plus_eqb n : (1 + Z.of_nat n =? 1) = (n =? 0)%nat.
Proof. destruct n as [|m]; [reflexivity|]. change ((S m =? 0)%nat) with false. apply Z.eqb_neq. lia. Qed.

Lemma rownums_first (kf : row -> row) l : forall pre seen,
  (forall q, existsb (row_eqb q) seen = existsb (row_eqb q) pre) ->
  map fst (filter (fun p : row * Z => snd p =? 1) (combine l (rownums kf pre l))) = dedup_on kf seen l.
Proof.
  induction l as [|x l IH]; intros pre seen Hm; [reflexivity|].
  cbn [rownums combine filter snd dedup_on]. rewrite one_plus_eqb, filter_len0, <- Hm.
  destruct (existsb (row_eqb (kf x)) seen) eqn:E; cbn [negb map fst].
  - apply IH. intro q. cbn [existsb]. rewrite <- Hm.
    destruct (row_eqb q (kf x)) eqn:Eq; [|reflexivity].
    apply row_eqb_eq in Eq. subst. simpl. exact E.
  - f_equal. apply IH. intro q. cbn [existsb]. rewrite Hm. reflexivity.
Qed.

(** whatever row of each partition the engine numbers 1: the rows it keeps are a valid dropDuplicates
    (taken from the input, one per key, every key present) *)
Definition numbering_ok (kf : row -> row) (R : list row) (ns : list Z) : Prop :=
  List.length ns = List.length R /\
  forall k, In k (map kf R) ->
    List.length (filter (fun p : row * Z => row_eqb (kf (fst p)) k && (snd p =? 1)) (combine R ns)) = 1%nat.
Definition picked (R : list row) (ns : list Z) : list row :=
  map fst (filter (fun p : row * Z => snd p =? 1) (combine R ns)).

Lemma filter_filter {A} (f g : A -> bool) l : filter f (filter g l) = filter (fun a => f a && g a) l.
Proof.
  induction l as [|a l IH]; simpl; [reflexivity|].
  destruct (g a); simpl; [destruct (f a); simpl; rewrite IH; reflexivity | rewrite IH, andb_false_r; reflexivity].
Qed.
Lemma filter_map_comm {A B} (f : B -> bool) (g : A -> B) l : filter f (map g l) = map g (filter (fun a => f (g a)) l).
Proof. induction l as [|a l IH]; simpl; [reflexivity|]. destruct (f (g a)); simpl; rewrite IH; reflexivity. Qed.
Lemma in_combine_fst {A B} (l : list A) (l' : list B) a :
  List.length l' = List.length l -> In a l -> exists b, In (a, b) (combine l l').
Proof.
  revert l'. induction l as [|x l IH]; intros [|y l'] Hl Hin; simpl in *; try discriminate; [contradiction|].
  destruct Hin as [->|Hin]; [exists y; left; reflexivity|].
  destruct (IH l' ltac:(lia) Hin) as [b Hb]. exists b. right. exact Hb.
Qed.
Lemma NoDup_map_count {A} (kf : A -> row) (l : list A) :
  (forall k, (List.length (filter (fun a => row_eqb (kf a) k) l) <= 1)%nat) -> NoDup (map kf l).
Proof.
  induction l as [|a l IH]; intro H; simpl; [constructor|].
  constructor.
  - intro Hin. apply in_map_iff in Hin. destruct Hin as [b [Eb Hb]].
    specialize (H (kf a)). simpl in H. rewrite (proj2 (row_eqb_eq _ _) eq_refl) in H. simpl in H.
    assert (Hpos : (1 <= List.length (filter (fun a0 => row_eqb (kf a0) (kf a)) l))%nat).
    { assert (Hf : In b (filter (fun a0 => row_eqb (kf a0) (kf a)) l)).
      { apply filter_In. split; [exact Hb | apply row_eqb_eq; exact Eb]. }
      destruct (filter (fun a0 => row_eqb (kf a0) (kf a)) l); [contradiction | simpl; lia]. }
    lia.
  - apply IH. intro k. specialize (H k). simpl in H. destruct (row_eqb (kf a) k); simpl in H; lia.
Qed.

Theorem window_pick_valid kf R ns :
  numbering_ok kf R ns ->
  (forall r, In r (picked R ns) -> In r R) /\
  NoDup (map kf (picked R ns)) /\
  (forall r, In r R -> In (kf r) (map kf (picked R ns))).
Proof.
  intros [Hlen Hone]. unfold picked. split; [|split].
  - intros r Hr. apply in_map_iff in Hr. destruct Hr as [[r' n] [<- Hp]]. apply filter_In in Hp.
    destruct Hp as [Hp _]. apply in_combine_l in Hp. exact Hp.
  - apply NoDup_map_count. intro k.
    rewrite filter_map_comm, map_length, filter_filter.
    destruct (existsb (row_eqb k) (map kf R)) eqn:E.
    + apply existsb_row_In in E. rewrite (Hone k E). lia.
    + replace (filter _ (combine R ns)) with (@nil (row * Z)); [simpl; lia|].
      symmetry. apply filter_all_false. intros [r n] Hp. cbn [fst snd].
      destruct (row_eqb (kf r) k) eqn:Ek; [|reflexivity].
      apply row_eqb_eq in Ek. apply existsb_row_false in E. exfalso. apply E. rewrite <- Ek.
      apply in_map. apply in_combine_l in Hp. exact Hp.
  - intros r Hr. specialize (Hone (kf r) (in_map kf _ _ Hr)).
    destruct (filter (fun p : row * Z => row_eqb (kf (fst p)) (kf r) && (snd p =? 1)) (combine R ns))
      as [|[r' n] tl] eqn:Ef; [discriminate|].
    assert (Hin : In (r', n) (filter (fun p : row * Z => row_eqb (kf (fst p)) (kf r) && (snd p =? 1)) (combine R ns)))
      by (rewrite Ef; left; reflexivity).
    apply filter_In in Hin. destruct Hin as [Hc Hb]. cbn [fst snd] in Hb.
    apply andb_true_iff in Hb. destruct Hb as [Hk H1]. apply row_eqb_eq in Hk. rewrite <- Hk.
    apply in_map. apply in_map_iff. exists (r', n). split; [reflexivity|].
    apply filter_In. split; [exact Hc | exact H1].
Qed.

(** the representative numbering is one of them *)
Lemma rownums_length kf l : forall pre, List.length (rownums kf pre l) = List.length l.
Proof. induction l as [|x l IH]; intro pre; simpl; [reflexivity | rewrite IH; reflexivity]. Qed.

Lemma rownums_count kf k l : forall pre,
  List.length (filter (fun p : row * Z => row_eqb (kf (fst p)) k && (snd p =? 1)) (combine l (rownums kf pre l))) =
  if existsb (row_eqb k) pre then 0%nat else if existsb (row_eqb k) (map kf l) then 1%nat else 0%nat.
Proof.
  induction l as [|x l IH]; intro pre; [cbn [rownums combine filter List.length map existsb]; destruct (existsb (row_eqb k) pre); reflexivity|].
  cbn [rownums combine filter fst snd map existsb]. rewrite one_plus_eqb, filter_len0.
  destruct (row_eqb (kf x) k) eqn:E.
  - apply row_eqb_eq in E. rewrite E. rewrite (proj2 (row_eqb_eq k k) eq_refl). cbn [andb orb].
    destruct (existsb (row_eqb k) pre) eqn:Ep; cbn [negb].
    + rewrite IH. cbn [existsb]. rewrite (proj2 (row_eqb_eq k k) eq_refl). reflexivity.
    + cbn [List.length]. rewrite IH. cbn [existsb]. rewrite (proj2 (row_eqb_eq k k) eq_refl). reflexivity.
  - cbn [andb]. rewrite IH. cbn [existsb].
    assert (E' : row_eqb k (kf x) = false).
    { destruct (row_eqb k (kf x)) eqn:E2; [|reflexivity]. apply row_eqb_eq in E2. subst.
      rewrite (proj2 (row_eqb_eq _ _) eq_refl) in E. discriminate. }
    rewrite E'. reflexivity.
Qed.

Theorem rownums_numbering_ok kf R : numbering_ok kf R (rownums kf [] R).
Proof.
  split; [apply rownums_length|]. intros k Hk. rewrite rownums_count. cbn [existsb].
  apply existsb_row_In in Hk. rewrite Hk. reflexivity.
Qed.

(** * The compiler over the whole alphabet *)
Record gcfg := mkGcfg {
  g_wrap : opk -> opk -> bool;       (* the `if` of group_operation.wrapper *)
  g_init : bool;                     (* group_operation: INIT forces a CTE *)
  g_kind : option opk;               (* decorator argument of GroupedData.agg *)
  g_flag_desc : bool -> bool;        (* orderBy: ascending flag -> DESC? *)
  g_flag_nf : bool -> bool }.        (* orderBy: ascending flag -> NULLS FIRST? *)

Record ydf := mkY { y_pre : list stage; y_d : df; y_ics : list string }.

(** a decorated method's wrapper with predicate [wr] / INIT flag [iw] / kind [k]: what the body receives, and the
    tag the wrapper writes afterwards *)
Definition deco_pre (wr : opk -> opk -> bool) (iw : bool) (k : opk) (d : df) : df * opk :=
  let d0 := if opk_eqb (last d) INIT then set_last (if iw then wrap d else d) NO_OP else d in
  let new := if opk_eqb k NO_OP then last d0 else k in
  ((if wr (last d0) new then wrap d0 else d0), new).

Definition is_plain (b : block) : bool :=
  negb (b_distinct b) && (match b_order b with [] => true | _ => false end)
  && (match b_limit b with None => true | _ => false end).
Definition restart (cs : list string) (k : opk) : df := mkDf [] (pass_block cs) k.
Definition dropdup_test (row_num : string) : expr := EBin Eq (ECol row_num) (ELit (VInt 1)).

Section ModelY.
  Variable c : cfg.
  Variable g : gcfg.
  Variable deco : string -> option opk.

  Definition step_y (Y : ydf) (x : xop) : option ydf :=
    let d := y_d Y in
    match x with
    | XAgg keys aggs =>
        (* DataFrame.groupBy's wrapper (its tag goes to the GroupedData object, not to the DataFrame), then
           GroupedData.agg's wrapper; the body writes GROUP BY and the new select list into the open block *)
        match deco "groupBy"%string, g_kind g with
        | Some kg, Some ka =>
            let d1 := fst (outer_pre c kg d) in
            let '(d2, new) := deco_pre (g_wrap g) (g_init g) ka d1 in
            if is_plain (cur d2) then
              let names := keys ++ map snd aggs in
              Some (mkY (y_pre Y ++ map SB (done d2) ++ [SG (b_where (cur d2)) keys aggs]) (restart names new) names)
            else None
        | _, _ => None
        end
    | XUnpivot ids vals var vl =>
        (* _convert_leaf_to_cte; UNION ALL of one projection per value column; _convert_leaf_to_cte *)
        match deco "unpivot"%string, vals with
        | Some k, _ :: _ =>
            let '(d1, new) := outer_pre c k d in
            let names := ids ++ [var; vl] in
            Some (mkY (y_pre Y ++ map SB (done d1 ++ [cur d1]) ++ [SU (unpivot_parts ids vals var vl)])
                      (restart names new) names)
        | _, _ => None
        end
    | XDropDup subset =>
        match deco "dropDuplicates"%string with
        | Some k =>
            let '(d1, new) := outer_pre c k d in
            match subset with
            | [] => Some (mkY (y_pre Y) (set_last (step c d1 ODistinct) new) (y_ics Y))      (* return self.distinct() *)
            | _ =>
                (* withColumn(row_num, row_number() over (partition by subset order by subset));
                   where(row_num = 1); drop(row_num) *)
                let all := cur_cols d1 in
                let d2 := pre_wrap c (OSelect []) (pre_init c d1) in
                let row_num := fresh_name "row_num" all in      (* a helper name that is not a current column *)
                if is_plain (cur d2) then
                  let names := all ++ [row_num] in
                  let dr := restart names (new_kind c (OSelect []) (last d1)) in
                  let d4 := step c dr (OWhere (dropdup_test row_num)) in
                  let d5 := step c d4 (OSelect (passthrough all)) in
                  Some (mkY (y_pre Y ++ map SB (done d2) ++ [SW (b_where (cur d2)) (b_sel (cur d2)) subset row_num])
                            (set_last d5 new) names)
                else None
            end
        | None => None
        end
    | XOrderFlags ks =>
        (* orderBy(names, ascending=flags): the ordinary orderBy step; direction and NULL placement of each term are
           what the method derives from the flag (generated) *)
        Some (mkY (y_pre Y) (step c d (OOrderBy (flag_keys (g_flag_desc g) (g_flag_nf g) ks))) (y_ics Y))
    | _ => option_map (fun d' => mkY (y_pre Y) d' (y_ics Y)) (step_x c deco d x)
    end.

  Fixpoint run_y (Y : ydf) (xs : list xop) : option ydf :=
    match xs with
    | [] => Some Y
    | x :: xs' => match step_y Y x with Some Y' => run_y Y' xs' | None => None end
    end.

  Definition eval_y (Y : ydf) (input : frame) : frame := eval_df (y_d Y) (eval_stages (y_pre Y) input).
  Definition all_stages (Y : ydf) : list stage := y_pre Y ++ map SB (done (y_d Y) ++ [cur (y_d Y)]).
  Definition init_y (ics : list string) : ydf := mkY [] (init_df ics) ics.
End ModelY.

(** the sequential reference: PySpark's meaning of every step, with the branch-major representative of unpivot *)
Definition ref_x (x : xop) (fr : frame) : frame :=
  match x with
  | XUnpivot ids vals var vl => unpivot_cm ids vals var vl fr
  | _ => spec_x x fr
  end.
Definition ref_xrun (xs : list xop) (fr : frame) : frame := fold_left (fun f x => ref_x x f) xs fr.

Lemma ref_x_perm x fr : cols (ref_x x fr) = cols (spec_x x fr) /\ Permutation (rows (ref_x x fr)) (rows (spec_x x fr)).
Proof. destruct x; try (split; reflexivity). apply unpivot_perm. Qed.

Lemma all_stages_eval Y input : eval_stages (all_stages Y) input = eval_y Y input.
Proof.
  unfold all_stages, eval_y. rewrite eval_stages_app, eval_stages_blocks, fold_left_app. reflexivity.
Qed.

(** * Correctness *)
Lemma hfree_col_vis vis cs k : In k vis -> hfree (hid_cols vis cs) (ECol k) = true.
Proof.
  intro H. unfold hfree. cbn [ecols forallb]. rewrite andb_true_r. apply negb_true_iff.
  destruct (mem k (hid_cols vis cs)) eqn:E; [|reflexivity].
  apply mem_In in E. unfold hid_cols in E. apply filter_In in E. destruct E as [_ E].
  apply negb_true_iff in E. apply mem_In in H. congruence.
Qed.

Lemma key_of_proj cs vis ks (r : row) :
  NoDup vis -> incl vis cs -> List.length r = List.length cs -> incl ks vis ->
  key_of vis ks (proj cs (passthrough vis) r) = key_of cs ks r.
Proof.
  intros Hnd Hi Hl Hk. unfold key_of. apply map_ext_in. intros k Hin.
  apply eval_proj_vis; auto. apply hfree_col_vis. apply Hk. exact Hin.
Qed.

Lemma agg_val_ext cs1 cs2 f col (rs1 rs2 : list row) :
  List.length rs1 = List.length rs2 ->
  (f <> ACountStar -> map (fun r => eval cs1 r (ECol col)) rs1 = map (fun r => eval cs2 r (ECol col)) rs2) ->
  agg_val cs1 f col rs1 = agg_val cs2 f col rs2.
Proof.
  intros Hl Hm. unfold agg_val. destruct f; try (rewrite Hm by discriminate; reflexivity).
  rewrite Hl. reflexivity.
Qed.

Definition agg_col_ok (cur : list string) (a : aggfn * string * string) : bool :=
  match fst (fst a) with ACountStar => true | _ => mem (snd (fst a)) cur end.

(** a GROUP BY written into a block that is a filter + projection onto some source columns *)
Lemma eval_group_block b S keys aggs :
  GSimple b (cols S) -> wf_frame S -> NoDup (out_cols (b_sel b)) ->
  incl keys (out_cols (b_sel b)) -> forallb (agg_col_ok (out_cols (b_sel b))) aggs = true ->
  eval_group (b_where b) keys aggs S = spec_agg keys aggs (eval_block b S).
Proof.
  intros (Hs & Hi & Hd & Ho & Hl) Hwf Hnd Hk Ha.
  rewrite (eval_gsimple b S) by assumption.
  unfold eval_group, spec_agg. cbn [cols rows]. f_equal.
  set (cs := cols S). set (vis := out_cols (b_sel b)) in *.
  set (L := filter (all_hold cs (b_where b)) (rows S)).
  assert (HL : forall r, In r L -> List.length r = List.length cs).
  { intros r Hr. apply filter_In in Hr. apply Hwf. tauto. }
  assert (HP : forall r, proj cs (b_sel b) r = proj cs (passthrough vis) r) by (intro r; apply proj_gs; exact Hs).
  assert (Hagg : forall M, (forall r, In r M -> In r L) -> forall a, In a aggs ->
            agg_val vis (fst (fst a)) (snd (fst a)) (map (proj cs (b_sel b)) M) = agg_val cs (fst (fst a)) (snd (fst a)) M).
  { intros M HM a Hin. apply agg_val_ext; [apply map_length|]. intro Hne.
    rewrite map_map. apply map_ext_in. intros r Hr. rewrite HP. apply eval_proj_vis; auto.
    apply hfree_col_vis. rewrite forallb_forall in Ha. specialize (Ha a Hin). unfold agg_col_ok in Ha.
    destruct (fst (fst a)); try contradiction; apply mem_In; exact Ha. }
  destruct keys as [|k0 keys'].
  - cbn [sql_groups map]. unfold agg_row. cbn [fst snd]. f_equal. f_equal.
    apply map_ext_in. intros a Hin. symmetry. apply Hagg; auto.
  - set (keys := k0 :: keys') in *. rewrite groups_sql by discriminate.
    unfold sql_groups. subst keys. cbn match. set (keys := k0 :: keys') in *.
    assert (Hkey : forall r, In r L -> key_of vis keys (proj cs (b_sel b) r) = key_of cs keys r).
    { intros r Hr. rewrite HP. apply key_of_proj; auto. }
    rewrite !map_map.
    replace (map (fun x => key_of vis keys (proj cs (b_sel b) x)) L) with (map (key_of cs keys) L)
      by (apply map_ext_in; intros; symmetry; apply Hkey; assumption).
    apply map_ext. intro k. unfold agg_row. cbn [fst snd]. f_equal.
    rewrite (filter_map_swap _ (fun r => row_eqb (key_of cs keys r) k)) by (intros; rewrite Hkey; auto).
    apply map_ext_in. intros a Hin. symmetry. apply Hagg; [|exact Hin].
    intros r Hr. apply filter_In in Hr. tauto.
Qed.

Lemma wf_eval_group ws keys aggs F : wf_frame (eval_group ws keys aggs F).
Proof.
  intros r Hr. cbn [eval_group rows cols] in *. apply in_map_iff in Hr. destruct Hr as [gp [<- Hg]].
  unfold agg_row. rewrite !app_length, !map_length. f_equal.
  unfold sql_groups in Hg. destruct keys as [|k0 keys']; [destruct Hg as [<-|[]]; reflexivity|].
  apply in_map_iff in Hg. destruct Hg as [k [<- Hk]]. cbn [fst].
  apply dedup_on_spec in Hk. destruct Hk as [Hk _]. apply in_map_iff in Hk. destruct Hk as [r0 [<- _]].
  unfold key_of. apply map_length.
Qed.
Lemma wf_eval_union ids vals var vl F : wf_frame (unpivot_cm ids vals var vl F).
Proof.
  intros r Hr. cbn [unpivot_cm rows cols] in *. apply in_flat_map in Hr. destruct Hr as [v [_ Hr]].
  apply in_map_iff in Hr. destruct Hr as [r0 [<- _]]. unfold unpivot_row, key_of.
  rewrite !app_length, map_length. reflexivity.
Qed.
Lemma wf_eval_window ws items part name F : wf_frame (eval_window ws items part name F).
Proof.
  intros r Hr. cbn [eval_window rows cols] in *. apply in_map_iff in Hr. destruct Hr as [p [<- _]].
  unfold proj, out_cols. rewrite !app_length, !map_length. reflexivity.
Qed.

(** ROW_NUMBER stage, then WHERE row_num = 1, then SELECT the original columns: first occurrences per key *)
Lemma holds_rownum row_num all (p : row) n :
  ~ In row_num all -> List.length p = List.length all ->
  holds (all ++ [row_num]) (p ++ [VInt n]) (dropdup_test row_num) = (n =? 1).
Proof.
  intros Hn Hl. unfold holds, dropdup_test. cbn [eval]. rewrite lookup_snoc by assumption.
  cbn [eval_bin val_cmp]. destruct (Z.compare_spec n 1) as [->| |]; cbn [cmp_tv]; [reflexivity| |];
    symmetry; apply Z.eqb_neq; lia.
Qed.

Lemma dropdup_frames row_num b S subset :
  GSimple b (cols S) -> wf_frame S -> NoDup (out_cols (b_sel b)) -> ~ In row_num (out_cols (b_sel b)) ->
  incl subset (out_cols (b_sel b)) ->
  let all := out_cols (b_sel b) in
  spec_step (OSelect (passthrough all)) (spec_step (OWhere (dropdup_test row_num)) (eval_window (b_where b) (b_sel b) subset row_num S))
  = mkFrame all (dedup_on (key_of all subset) [] (rows (eval_block b S))).
Proof.
  intros (Hs & Hi & Hd & Ho & Hl) Hwf Hnd Hrn Hsub all.
  rewrite (eval_gsimple b S) by assumption. cbn [rows].
  unfold spec_step, eval_window. cbn [cols rows]. rewrite out_cols_passthrough. f_equal. fold all.
  set (cs := cols S). set (L := filter (all_hold cs (b_where b)) (rows S)).
  set (ns := rownums (key_of cs subset) [] L).
  assert (HL : forall r, In r L -> List.length r = List.length cs).
  { intros r Hr. apply filter_In in Hr. apply Hwf. tauto. }
  assert (HP : forall r, proj cs (b_sel b) r = proj cs (passthrough all) r) by (intro r; apply proj_gs; exact Hs).
  assert (Hlen : forall r, List.length (proj cs (b_sel b) r) = List.length all).
  { intro r. unfold proj, all, out_cols. rewrite !map_length. reflexivity. }
  rewrite (filter_map_swap _ (fun p : row * Z => snd p =? 1)).
  2:{ intros p _. apply holds_rownum; auto. }
  rewrite map_map.
  replace (map (fun x : row * Z => proj (all ++ [row_num]) (passthrough all) (proj cs (b_sel b) (fst x) ++ [VInt (snd x)]))
               (filter (fun p : row * Z => snd p =? 1) (combine L ns)))
    with (map (proj cs (b_sel b)) (map fst (filter (fun p : row * Z => snd p =? 1) (combine L ns)))).
  2:{ rewrite map_map. apply map_ext. intro p. rewrite proj_app_left by apply Hlen.
      symmetry. apply proj_passthrough; [exact Hnd | apply Hlen]. }
  unfold ns. rewrite (rownums_first (key_of cs subset) L [] []) by reflexivity.
  rewrite dedup_on_map. f_equal. apply dedup_on_ext_in.
  intros r Hr. rewrite HP. symmetry. apply key_of_proj; auto.
Qed.

Section YProof.
  Variable c : cfg.
  Hypothesis Hcfg : cfg_ok c = true.
  Hypothesis Hlim : limit_ok c.
  Variable g : gcfg.
  Variable deco : string -> option opk.

  Definition YInv (Y : ydf) (input : frame) : Prop :=
    GInvR c (y_d Y) (y_ics Y) /\ cols (eval_stages (y_pre Y) input) = y_ics Y /\
    wf_frame (eval_stages (y_pre Y) input).

  Lemma restart_inv names k : NoDup names -> In k (reach c) -> GInvR c (restart names k) names.
  Proof.
    intros Hnd Hk. split; [|exact Hk]. apply inv_ginv. unfold Inv, restart. cbn [cur last src_cols done rev pass_block
      b_sel b_distinct b_order b_limit]. rewrite out_cols_passthrough. tauto.
  Qed.
  Lemma eval_restart W names k : cols W = names -> wf_frame W -> NoDup names -> eval_df (restart names k) W = W.
  Proof.
    intros Hc Hwf Hnd. unfold eval_df, restart, source. cbn [done cur fold_left]. rewrite <- Hc.
    apply eval_pass_block; [exact Hwf | rewrite Hc; exact Hnd].
  Qed.

  (** ** a wrapper with any predicate keeps the invariant and the meaning; it leaves a filter+projection block
      whenever it wrapped or the tag said so before *)
  Definition deco_k (wr : opk -> opk -> bool) (iw : bool) (k : opk) (st : opk * bool) : opk * bool :=
    let st0 := if opk_eqb (fst st) INIT then (NO_OP, snd st || iw) else st in
    (fst st0, snd st0 || wr (fst st0) (if opk_eqb k NO_OP then fst st0 else k)).

  Lemma gsimple_wrap d ics : GSimple (cur (wrap d)) (src_cols (wrap d) ics).
  Proof.
    rewrite src_cols_wrap. unfold wrap, GSimple. cbn [cur pass_block b_sel b_distinct b_order b_limit].
    rewrite out_cols_passthrough. repeat split; auto. apply incl_refl.
  Qed.

  Lemma deco_pre_ok wr iw k d ics input w :
    GInvR c d ics -> (w = true -> GSimple (cur d) (src_cols d ics)) ->
    let d' := fst (deco_pre wr iw k d) in
    eval_df d' input = eval_df d input /\ GInvR c d' ics /\ cur_cols d' = cur_cols d /\
    last d' = fst (deco_k wr iw k (last d, w)) /\
    snd (deco_pre wr iw k d) = (if opk_eqb k NO_OP then last d' else k) /\
    (snd (deco_k wr iw k (last d, w)) = true -> GSimple (cur d') (src_cols d' ics)).
  Proof.
    intros [HI Hr] Hw. unfold deco_pre, deco_k. cbn [fst snd].
    assert (Hn : NoDup (out_cols (b_sel (cur d)))) by (destruct HI as (_&_&_&_&Hn); exact Hn).
    set (d0 := if opk_eqb (last d) INIT then set_last (if iw then wrap d else d) NO_OP else d).
    set (st0 := if opk_eqb (last d) INIT then (NO_OP, w || iw) else (last d, w)).
    assert (H0 : eval_df d0 input = eval_df d input /\ GInvR c d0 ics /\ cur_cols d0 = cur_cols d /\
                 last d0 = fst st0 /\ (snd st0 = true -> GSimple (cur d0) (src_cols d0 ics))).
    { subst d0 st0. destruct (opk_eqb (last d) INIT) eqn:Ei;
        [|split; [reflexivity|]; split; [split; assumption|]; split; [reflexivity|]; split; [reflexivity | exact Hw]].
      destruct iw.
      - split; [apply (wrap_eval d input Hn)|]. split; [split; [apply ginv_wrap; exact Hn | unfold reach; simpl; tauto]|].
        split; [apply cur_cols_wrap|]. split; [reflexivity|]. intros _. apply (gsimple_wrap d ics).
      - split; [reflexivity|]. split.
        + split; [|unfold reach; simpl; tauto]. destruct (last d) eqn:El; try discriminate.
          unfold GInv in *. cbn [set_last last cur]. rewrite El in HI. exact HI.
        + split; [reflexivity|]. split; [reflexivity|]. cbn [snd]. rewrite orb_false_r. exact Hw. }
    destruct H0 as (He0 & HI0 & Hc0 & Hl0 & Hs0). rewrite <- Hl0.
    assert (Hn0 : NoDup (out_cols (b_sel (cur d0)))) by (destruct HI0 as [(_&_&_&_&Hn0) _]; exact Hn0).
    set (new := if opk_eqb k NO_OP then last d0 else k).
    destruct (wr (last d0) new) eqn:Ew.
    - split; [rewrite <- He0; apply wrap_eval; exact Hn0|].
      split; [split; [|destruct HI0; assumption]|].
      { pose proof (ginv_wrap d0 ics (last d0) Hn0) as H.
        change (set_last (wrap d0) (last d0)) with (wrap d0) in H. exact H. }
      split; [rewrite cur_cols_wrap; exact Hc0|]. split; [reflexivity|]. split; [reflexivity|].
      intros _. apply gsimple_wrap.
    - split; [exact He0|]. split; [exact HI0|]. split; [exact Hc0|]. split; [reflexivity|]. split; [reflexivity|].
      rewrite orb_false_r. exact Hs0.
  Qed.

  Lemma outer_pre_deco k d : outer_pre c k d = deco_pre (wrap_needed c) (init_wraps c) k d.
  Proof. reflexivity. Qed.

  Lemma ginv_gsimple d ics : GInv d ics -> claim (last d) < 5 -> GSimple (cur d) (src_cols d ics).
  Proof.
    intros (Ha & Hb & Hc & _) H5. destruct (Ha H5) as (H1 & H2 & H3).
    unfold GSimple. rewrite Hb, Hc by lia. tauto.
  Qed.
  Lemma gsimple_plain b src : GSimple b src -> is_plain b = true.
  Proof. intros (_ & _ & Hd & Ho & Hl). unfold is_plain. rewrite Hd, Ho, Hl. reflexivity. Qed.

  (** ** groupBy(keys).agg(aggs) *)
  Definition agg_ok (kg ka : opk) : bool :=
    forallb (fun l =>
      let st := deco_k (g_wrap g) (g_init g) ka (deco_k (wrap_needed c) (init_wraps c) kg (l, false)) in
      let new := if opk_eqb ka NO_OP then fst st else ka in
      (* the body can write GROUP BY into the open block; the tag written afterwards forces the next where/select
         into a new block (the model continues in a fresh pass-through block over the aggregate's result, the
         implementation in the GROUP BY block itself: the same for ORDER BY / LIMIT only) *)
      (snd st || (claim (fst st) <? 5)) && (5 <=? claim new) && mem_opk new (reach c)) (reach c).

  Definition y_ok (Y : ydf) (x : xop) : bool :=
    let cur := cur_cols (y_d Y) in
    match x with
    | XAgg keys aggs =>
        forallb (fun k => mem k cur) keys && forallb (agg_col_ok cur) aggs && nodupb (keys ++ map snd aggs)
    | XUnpivot ids vals var vl => nodupb (ids ++ [var; vl])
    | XDropDup subset =>
        forallb (fun s => mem s cur) subset && match subset with [] => false | _ => true end
    | XOrderFlags ks => op_ok c (y_d Y) (y_ics Y) (OOrderBy (flag_keys negb (fun asc => asc) ks))
    | _ => x_ok c (y_d Y) (y_ics Y) x
    end.

  (** instantiation obligation on the generated flag functions: Spark's rule (descending iff not ascending;
      ascending keys put NULLs first, descending keys put them last) *)
  Definition flags_ok : bool :=
    forallb (fun asc => Bool.eqb (g_flag_desc g asc) (negb asc) && Bool.eqb (g_flag_nf g asc) asc) [true; false].
  Lemma flags_ok_keys ks : flags_ok = true -> flag_keys (g_flag_desc g) (g_flag_nf g) ks = flag_keys negb (fun asc => asc) ks.
  Proof.
    intro H. unfold flags_ok in H. rewrite forallb_forall in H. unfold flag_keys. apply map_ext. intros [n asc]. cbn [fst snd].
    assert (Hin : In asc [true; false]) by (destruct asc; simpl; tauto).
    specialize (H asc Hin). apply andb_true_iff in H. destruct H as [H1 H2].
    apply Bool.eqb_prop in H1, H2. rewrite H1, H2. reflexivity.
  Qed.

  Lemma source_stages d input : source d input = eval_stages (map SB (done d)) input.
  Proof. unfold source. symmetry. apply eval_stages_blocks. Qed.

  Theorem agg_correct kg ka Y input keys aggs :
    deco "groupBy"%string = Some kg -> g_kind g = Some ka -> agg_ok kg ka = true ->
    YInv Y input -> y_ok Y (XAgg keys aggs) = true ->
    exists Y', step_y c g deco Y (XAgg keys aggs) = Some Y' /\
               eval_y Y' input = spec_x (XAgg keys aggs) (eval_y Y input) /\ YInv Y' input.
  Proof.
    intros Hdg Hgk Hok (HI & Hcs & Hwf) Hx.
    unfold y_ok in Hx. apply andb_true_iff in Hx. destruct Hx as [Hx Hnd].
    apply andb_true_iff in Hx. destruct Hx as [Hkeys Haggs]. apply nodupb_sound in Hnd.
    set (W0 := eval_stages (y_pre Y) input) in *.
    unfold step_y. rewrite Hdg, Hgk. rewrite outer_pre_deco.
    destruct (deco_pre_ok (wrap_needed c) (init_wraps c) kg (y_d Y) (y_ics Y) W0 false HI ltac:(discriminate))
      as (He1 & HI1 & Hc1 & Hl1 & _ & Hs1).
    set (d1 := fst (deco_pre (wrap_needed c) (init_wraps c) kg (y_d Y))) in *.
    destruct (deco_pre_ok (g_wrap g) (g_init g) ka d1 (y_ics Y) W0
                (snd (deco_k (wrap_needed c) (init_wraps c) kg (last (y_d Y), false))) HI1 Hs1)
      as (He2 & HI2 & Hc2 & Hl2 & Hnew & Hs2).
    destruct (deco_pre (g_wrap g) (g_init g) ka d1) as [d2 new] eqn:E2. cbn [fst snd] in *.
    rewrite Hl1 in Hl2, Hs2. rewrite <- surjective_pairing in Hl2, Hs2.
    unfold agg_ok in Hok. rewrite forallb_forall in Hok. destruct HI as [HIa Hr]. specialize (Hok _ Hr).
    cbv zeta in Hok. rewrite <- Hl2 in Hok.
    apply andb_true_iff in Hok. destruct Hok as [Hok Hreach]. rewrite <- Hnew in Hreach. apply mem_opk_in in Hreach.
    apply andb_true_iff in Hok. destruct Hok as [Hsimple _].
    assert (HS : GSimple (cur d2) (src_cols d2 (y_ics Y))).
    { apply orb_true_iff in Hsimple. destruct Hsimple as [H|H]; [apply Hs2; exact H|].
      apply Z.ltb_lt in H. destruct HI2 as [HI2 _]. apply ginv_gsimple; assumption. }
    rewrite (gsimple_plain _ _ HS).
    eexists. split; [reflexivity|].
    set (names := keys ++ map snd aggs) in *.
    assert (HW : eval_stages (y_pre Y ++ map SB (done d2) ++ [SG (b_where (cur d2)) keys aggs]) input
                 = spec_agg keys aggs (eval_df d2 W0)).
    { rewrite !eval_stages_app. fold W0. rewrite <- source_stages. cbn [eval_stages fold_left eval_stage].
      pose proof (cols_source d2 W0) as Hcsrc. rewrite Hcs in Hcsrc.
      apply eval_group_block.
      - rewrite Hcsrc. exact HS.
      - apply wf_source. exact Hwf.
      - destruct HI2 as [(_&_&_&_&Hn) _]. exact Hn.
      - intros k Hk. rewrite forallb_forall in Hkeys. apply mem_In. fold (cur_cols d2). rewrite Hc2, Hc1. apply Hkeys. exact Hk.
      - fold (cur_cols d2). rewrite Hc2, Hc1. exact Haggs. }
    assert (HcW : cols (spec_agg keys aggs (eval_df d2 W0)) = names) by reflexivity.
    assert (HwW : wf_frame (spec_agg keys aggs (eval_df d2 W0))).
    { rewrite <- eval_group_spec. apply wf_eval_group. }
    split; [|split; [|split]].
    - unfold eval_y. cbn [y_pre y_d]. rewrite HW. rewrite eval_restart by assumption.
      rewrite He2, He1. reflexivity.
    - cbn [y_d y_ics]. apply restart_inv; assumption.
    - cbn [y_pre y_ics]. rewrite HW. exact HcW.
    - cbn [y_pre]. rewrite HW. exact HwW.
  Qed.

  (** ** unpivot *)
  Theorem unpivot_correct k Y input ids vals var vl :
    deco "unpivot"%string = Some k -> kind_reach_ok c k = true -> vals <> [] ->
    YInv Y input -> y_ok Y (XUnpivot ids vals var vl) = true ->
    exists Y', step_y c g deco Y (XUnpivot ids vals var vl) = Some Y' /\
               eval_y Y' input = ref_x (XUnpivot ids vals var vl) (eval_y Y input) /\ YInv Y' input.
  Proof.
    intros Hd Hk Hv (HI & Hcs & Hwf) Hx. unfold y_ok in Hx. apply nodupb_sound in Hx.
    set (W0 := eval_stages (y_pre Y) input) in *.
    unfold step_y. rewrite Hd. destruct vals as [|v0 vals']; [contradiction|]. set (vals := v0 :: vals') in *.
    destruct (outer_pre_ok c k (y_d Y) (y_ics Y) W0 HI) as (He1 & HI1 & Hc1 & Hl1 & Hreach).
    destruct (outer_pre c k (y_d Y)) as [d1 new] eqn:Eo. cbn [fst snd] in *.
    assert (Hnew : In new (reach c)).
    { apply Hreach. unfold kind_reach_ok in Hk. rewrite forallb_forall in Hk.
      destruct (gpre_init c (y_d Y) (y_ics Y) W0 HI) as [[_ Hr0] _]. apply mem_opk_in. apply (Hk _ Hr0). }
    eexists. split; [reflexivity|].
    set (names := ids ++ [var; vl]) in *.
    assert (HW : eval_stages (y_pre Y ++ map SB (done d1 ++ [cur d1]) ++ [SU (unpivot_parts ids vals var vl)]) input
                 = unpivot_cm ids vals var vl (eval_df d1 W0)).
    { rewrite !eval_stages_app. fold W0. rewrite eval_stages_blocks, fold_left_app.
      cbn [eval_stages fold_left eval_stage]. apply eval_union_unpivot. discriminate. }
    split; [|split; [|split]].
    - unfold eval_y. cbn [y_pre y_d]. rewrite HW. rewrite eval_restart; auto; [|apply wf_eval_union].
      cbn [ref_x]. rewrite He1. reflexivity.
    - cbn [y_d y_ics]. apply restart_inv; assumption.
    - cbn [y_pre y_ics]. rewrite HW. reflexivity.
    - cbn [y_pre]. rewrite HW. apply wf_eval_union.
  Qed.

  (** ** dropDuplicates(subset) *)
  Theorem dropdup_correct k Y input subset :
    deco "dropDuplicates"%string = Some k -> kind_reach_ok c k = true ->
    YInv Y input -> y_ok Y (XDropDup subset) = true ->
    exists Y', step_y c g deco Y (XDropDup subset) = Some Y' /\
               eval_y Y' input = spec_x (XDropDup subset) (eval_y Y input) /\ YInv Y' input.
  Proof.
    intros Hd Hk (HI & Hcs & Hwf) Hx. unfold y_ok in Hx.
    apply andb_true_iff in Hx. destruct Hx as [Hsub Hne].
    set (W0 := eval_stages (y_pre Y) input) in *.
    unfold step_y. rewrite Hd.
    destruct (outer_pre_ok c k (y_d Y) (y_ics Y) W0 HI) as (He1 & HI1 & Hc1 & Hl1 & Hreach).
    destruct (outer_pre c k (y_d Y)) as [d1 new] eqn:Eo. cbn [fst snd] in *.
    assert (Hnew : In new (reach c)).
    { apply Hreach. unfold kind_reach_ok in Hk. rewrite forallb_forall in Hk.
      destruct (gpre_init c (y_d Y) (y_ics Y) W0 HI) as [[_ Hr0] _]. apply mem_opk_in. apply (Hk _ Hr0). }
    destruct subset as [|s0 subset']; [discriminate|]. set (subset := s0 :: subset') in *.
    set (all := cur_cols d1) in *.
    assert (Hnda : NoDup all) by (destruct HI1 as [(_&_&_&_&Hn) _]; exact Hn).
    set (row_num := fresh_name "row_num" all).
    assert (Hrna : ~ In row_num all) by apply fresh_not_in.
    assert (Hsuba : incl subset all).
    { rewrite Hc1. intros s Hs. rewrite forallb_forall in Hsub. apply mem_In. apply Hsub. exact Hs. }
    rewrite (pre_init_idem c d1 Hl1).
    destruct (gpre_wrap c Hcfg d1 (y_ics Y) W0 (OSelect []) HI1) as [(HS & _ & Hn1 & Hn2) He2].
    specialize (HS ltac:(simpl; lia)).
    set (d2 := pre_wrap c (OSelect []) d1) in *.
    assert (Hc2 : out_cols (b_sel (cur d2)) = all).
    { change (cur_cols d2 = all). subst d2. rewrite <- (pre_init_idem c d1 Hl1) at 1. apply cur_cols_pre. }
    rewrite (gsimple_plain _ _ HS).
    set (names := all ++ [row_num]).
    assert (Hndn : NoDup names) by (apply NoDup_app_snoc; assumption).
    set (W := eval_stages (y_pre Y ++ map SB (done d2) ++ [SW (b_where (cur d2)) (b_sel (cur d2)) subset row_num]) input).
    assert (HW : W = eval_window (b_where (cur d2)) (b_sel (cur d2)) subset row_num (source d2 W0)).
    { subst W. rewrite !eval_stages_app. fold W0. rewrite <- source_stages. reflexivity. }
    assert (HcW : cols W = names) by (rewrite HW; cbn [eval_window cols]; rewrite Hc2; reflexivity).
    assert (HwW : wf_frame W) by (rewrite HW; apply wf_eval_window).
    assert (Hkind : In (new_kind c (OSelect []) (last d1)) (reach c)).
    { unfold new_kind. destruct (opk_eqb (kind_of c (name_of (OSelect []))) NO_OP);
        [destruct HI1; assumption | apply reach_kind]. }
    pose proof (restart_inv names _ Hndn Hkind) as HIr.
    set (dr := restart names (new_kind c (OSelect []) (last d1))) in *.
    assert (Hcr : cur_cols dr = names) by (unfold dr, restart, cur_cols; cbn [cur pass_block b_sel]; apply out_cols_passthrough).
    assert (Hhf4 : hf_ok c dr names (OWhere (dropdup_test row_num)) = true).
    { apply hf_ok_where_vis. intros n Hn. simpl in Hn. destruct Hn as [<-|[]].
      rewrite Hcr. apply in_or_app. right. left. reflexivity. }
    assert (Hok4 : op_ok c dr names (OWhere (dropdup_test row_num)) = true) by reflexivity.
    destruct (gstep_correct c Hcfg Hlim dr names W _ HcW HwW HIr Hok4 Hhf4) as [Ev4 HI4].
    destruct (gstep_where_post c Hcfg dr names (dropdup_test row_num) HIr) as ((_ & Hi4 & _) & Hc4).
    set (d4 := step c dr (OWhere (dropdup_test row_num))) in *.
    assert (Hin4 : forall n, In n all -> In n (cur_cols d4)).
    { intros n Hn. rewrite Hc4, Hcr. apply in_or_app. left. exact Hn. }
    assert (Hok5 : op_ok c d4 names (OSelect (passthrough all)) = true).
    { unfold op_ok. rewrite out_cols_passthrough. apply nodupb_complete. exact Hnda. }
    assert (Hhf5 : hf_ok c d4 names (OSelect (passthrough all)) = true).
    { apply hf_ok_select_vis. intros it n Hit Hn.
      unfold passthrough in Hit. apply in_map_iff in Hit. destruct Hit as [a [<- Ha]].
      simpl in Hn. destruct Hn as [<-|[]]. apply Hin4. exact Ha. }
    destruct (gstep_correct c Hcfg Hlim d4 names W _ HcW HwW HI4 Hok5 Hhf5) as [Ev5 HI5].
    destruct (gstep_select_post c Hcfg d4 names (passthrough all) HI4) as (Ps5 & Pd5 & Po5 & Pl5).
    pose proof (src_cols_pre c d4 (OSelect (passthrough all)) names) as Hsrc5.
    rewrite <- src_cols_step in Hsrc5.
    set (d5 := step c d4 (OSelect (passthrough all))) in *.
    eexists. split; [reflexivity|]. fold W.
    split; [|split; [|split]].
    - unfold eval_y. cbn [y_pre y_d]. fold W.
      change (eval_df (set_last d5 new) W) with (eval_df d5 W).
      rewrite Ev5, Ev4. unfold dr. rewrite (eval_restart W names) by assumption.
      pose proof (cols_source d2 W0) as Hcsrc. rewrite Hcs in Hcsrc.
      rewrite HW. rewrite <- Hc2.
      rewrite (dropdup_frames row_num (cur d2) (source d2 W0) subset).
      + fold W0. change (eval_block (cur d2) (source d2 W0)) with (eval_df d2 W0). rewrite He2, He1, Hc2.
        unfold spec_x. change (cols (eval_df (y_d Y) W0)) with (cur_cols (y_d Y)). rewrite <- Hc1. reflexivity.
      + rewrite Hcsrc. exact HS.
      + apply wf_source. exact Hwf.
      + rewrite Hc2. exact Hnda.
      + rewrite Hc2. exact Hrna.
      + rewrite Hc2. exact Hsuba.
    - cbn [y_d y_ics]. split; [|exact Hnew].
      destruct HI5 as [(_ & _ & _ & Hn51 & Hn52) _].
      unfold GInv. change (cur (set_last d5 new)) with (cur d5).
      change (last (set_last d5 new)) with new.
      change (src_cols (set_last d5 new) names) with (src_cols d5 names).
      refine (conj _ (conj _ (conj _ (conj _ _)))); try (intro; assumption); [|exact Hn51|exact Hn52].
      intros _. rewrite Ps5, out_cols_passthrough. split; [reflexivity|]. split; [|exact Pd5].
      intros n Hn. destruct Hsrc5 as [-> | ->]; [apply Hi4|]; apply Hin4; exact Hn.
    - cbn [y_pre y_ics]. exact HcW.
    - cbn [y_pre]. exact HwW.
  Qed.

  (** ** every list over the whole alphabet *)
  Definition deco_ok_y : bool :=
    deco_ok c deco && flags_ok &&
    match deco "groupBy"%string, g_kind g, deco "unpivot"%string, deco "dropDuplicates"%string with
    | Some kg, Some ka, Some ku, Some kdd => agg_ok kg ka && kind_reach_ok c ku && kind_reach_ok c kdd
    | _, _, _, _ => false
    end.

  Fixpoint ys_ok (Y : ydf) (xs : list xop) : bool :=
    match xs with
    | [] => true
    | x :: xs' => y_ok Y x && match x with XUnpivot _ [] _ _ => false | _ => true end &&
                  match step_y c g deco Y x with Some Y' => ys_ok Y' xs' | None => false end
    end.

  Theorem ystep_correct Y input x :
    deco_ok_y = true -> YInv Y input -> y_ok Y x = true ->
    match x with XUnpivot _ [] _ _ => false | _ => true end = true ->
    exists Y', step_y c g deco Y x = Some Y' /\ eval_y Y' input = ref_x x (eval_y Y input) /\ YInv Y' input.
  Proof.
    intros Hdk HY Hx Hv. unfold deco_ok_y in Hdk. apply andb_true_iff in Hdk. destruct Hdk as [Hdk Hdk2].
    apply andb_true_iff in Hdk. destruct Hdk as [Hdk Hflags].
    destruct (deco "groupBy"%string) as [kg|] eqn:Dg; [|discriminate].
    destruct (g_kind g) as [ka|] eqn:Dk; [|discriminate].
    destruct (deco "unpivot"%string) as [ku|] eqn:Du; [|discriminate].
    destruct (deco "dropDuplicates"%string) as [kdd|] eqn:Dd; [|discriminate].
    apply andb_true_iff in Hdk2. destruct Hdk2 as [Hdk2 Hkdd].
    apply andb_true_iff in Hdk2. destruct Hdk2 as [Hagg Hku].
    assert (Hlift : forall x', (forall Y0, step_y c g deco Y0 x' = option_map (fun d' => mkY (y_pre Y0) d' (y_ics Y0)) (step_x c deco (y_d Y0) x')) ->
                          ref_x x' = spec_x x' -> x_ok c (y_d Y) (y_ics Y) x' = true ->
                          exists Y', step_y c g deco Y x' = Some Y' /\ eval_y Y' input = ref_x x' (eval_y Y input) /\ YInv Y' input).
    { intros x' Hst Hrf Hxo. destruct HY as (HI & Hcs & Hwf).
      destruct (xstep_correct c Hcfg Hlim deco (y_d Y) (y_ics Y) (eval_stages (y_pre Y) input) x' Hdk Hcs Hwf HI Hxo)
        as (d1 & Hs & He & HI1).
      exists (mkY (y_pre Y) d1 (y_ics Y)). rewrite Hst, Hs. split; [reflexivity|].
      split; [rewrite Hrf; exact He|]. split; [exact HI1 | split; assumption]. }
    destruct x.
    - apply Hlift; auto.
    - apply Hlift; auto.
    - apply Hlift; auto.
    - apply Hlift; auto.
    - apply Hlift; auto.
    - apply (dropdup_correct kdd); auto.
    - apply (unpivot_correct ku); auto. destruct vals; [discriminate Hv | discriminate].
    - apply (agg_correct kg ka); auto.
    - destruct HY as (HI & Hcs & Hwf). cbn [step_y y_ok] in *. rewrite (flags_ok_keys ks Hflags).
      eexists. split; [reflexivity|].
      destruct (gstep_correct c Hcfg Hlim (y_d Y) (y_ics Y) (eval_stages (y_pre Y) input) _ Hcs Hwf HI Hx eq_refl)
        as [He HI'].
      split; [exact He|]. split; [exact HI' | split; assumption].
  Qed.

  Theorem ychain_correct xs : forall Y input,
    deco_ok_y = true -> YInv Y input -> ys_ok Y xs = true ->
    exists Y', run_y c g deco Y xs = Some Y' /\ eval_y Y' input = ref_xrun xs (eval_y Y input).
  Proof.
    induction xs as [|x xs IH]; intros Y input Hdk HY Hok; simpl.
    - exists Y. split; reflexivity.
    - simpl in Hok. apply andb_true_iff in Hok. destruct Hok as [Hx Hrest].
      apply andb_true_iff in Hx. destruct Hx as [Hx Hv].
      destruct (ystep_correct Y input x Hdk HY Hx Hv) as (Y1 & Hs & He & HY1).
      rewrite Hs in Hrest |- *.
      destruct (IH Y1 input Hdk HY1 Hrest) as (Y' & Hrun & Hev).
      exists Y'. split; [exact Hrun|]. rewrite Hev, He. reflexivity.
  Qed.

  Lemma init_yinv input : wf_frame input -> NoDup (cols input) -> YInv (init_y (cols input)) input.
  Proof.
    intros Hwf Hnd. split; [|split; [reflexivity | exact Hwf]].
    apply invr_ginvr. apply init_inv. exact Hnd.
  Qed.
End YProof.

(** * Tie T2 over stages: structural equality up to a verified normal form
    (identity blocks dropped, WHERE split into conjuncts, a one-branch UNION ALL read as a plain SELECT) *)
Definition aggfn_eqb (a b : aggfn) : bool :=
  match a, b with
  | ASum, ASum | ACount, ACount | AMin, AMin | AMax, AMax | ACountStar, ACountStar | AAvg, AAvg => true
  | _, _ => false
  end.
Definition agg_eqb (a b : aggfn * string * string) : bool :=
  aggfn_eqb (fst (fst a)) (fst (fst b)) && String.eqb (snd (fst a)) (snd (fst b)) && String.eqb (snd a) (snd b).
Definition stage_eqb (a b : stage) : bool :=
  match a, b with
  | SB x, SB y => block_eqb x y
  | SG w k g, SG w' k' g' => list_eqb expr_eqb w w' && list_eqb String.eqb k k' && list_eqb agg_eqb g g'
  | SU p, SU p' => list_eqb (list_eqb item_eqb) p p'
  | SW w i p n, SW w' i' p' n' =>
      list_eqb expr_eqb w w' && list_eqb item_eqb i i' && list_eqb String.eqb p p' && String.eqb n n'
  | _, _ => false
  end.

Lemma item_eqb_eq a b : item_eqb a b = true -> a = b.
Proof.
  destruct a as [e1 s1], b as [e2 s2]. unfold item_eqb; simpl. intro E.
  apply andb_true_iff in E. destruct E as [E1 E2]. apply expr_eqb_eq in E1. apply String.eqb_eq in E2. congruence.
Qed.
Lemma strs_eqb_eq a b : list_eqb String.eqb a b = true -> a = b.
Proof. apply list_eqb_eq. intros x y. apply String.eqb_eq. Qed.
Lemma exprs_eqb_eq a b : list_eqb expr_eqb a b = true -> a = b.
Proof. apply list_eqb_eq. intros x y. apply expr_eqb_eq. Qed.
Lemma agg_eqb_eq a b : agg_eqb a b = true -> a = b.
Proof.
  destruct a as [[f1 c1] n1], b as [[f2 c2] n2]. unfold agg_eqb; simpl. intro E.
  apply andb_true_iff in E. destruct E as [E E3]. apply andb_true_iff in E. destruct E as [E1 E2].
  apply String.eqb_eq in E2, E3. destruct f1, f2; try discriminate; congruence.
Qed.
Lemma stage_eqb_eq a b : stage_eqb a b = true -> a = b.
Proof.
  destruct a, b; simpl; intro E; try discriminate.
  - apply block_eqb_eq in E. congruence.
  - apply andb_true_iff in E. destruct E as [E E3]. apply andb_true_iff in E. destruct E as [E1 E2].
    apply exprs_eqb_eq in E1. apply strs_eqb_eq in E2. apply (list_eqb_eq agg_eqb agg_eqb_eq) in E3. congruence.
  - apply (list_eqb_eq _ (list_eqb_eq item_eqb item_eqb_eq)) in E. congruence.
  - apply andb_true_iff in E. destruct E as [E E4]. apply andb_true_iff in E. destruct E as [E E3].
    apply andb_true_iff in E. destruct E as [E1 E2].
    apply exprs_eqb_eq in E1. apply (list_eqb_eq item_eqb item_eqb_eq) in E2. apply strs_eqb_eq in E3.
    apply String.eqb_eq in E4. congruence.
Qed.

Definition uniform (parts : list (list (expr * string))) : bool :=
  match parts with
  | [] => true
  | p :: _ => forallb (fun q => Nat.eqb (List.length q) (List.length p)) parts
  end.

Fixpoint snf (cs : list string) (ss : list stage) : list stage :=
  match ss with
  | [] => []
  | SB b :: ss' => if is_pass cs b then snf cs ss' else SB (norm_block b) :: snf (out_cols (b_sel b)) ss'
  | SG ws k g :: ss' => SG (flat_map conjuncts ws) k g :: snf (k ++ map snd g) ss'
  | SU [p] :: ss' => SB (mkBlock [] p false [] None) :: snf (out_cols p) ss'
  | SU parts :: ss' =>
      SU parts :: (if uniform parts then snf (match parts with p :: _ => out_cols p | [] => [] end) ss' else ss')
  | SW ws it p n :: ss' => SW (flat_map conjuncts ws) it p n :: snf (out_cols it ++ [n]) ss'
  end.

Lemma eval_group_flat ws k g F : eval_group (flat_map conjuncts ws) k g F = eval_group ws k g F.
Proof. unfold eval_group. rewrite (filter_ext _ _ (all_hold_flat (cols F) ws)). reflexivity. Qed.
Lemma eval_window_flat ws it p n F : eval_window (flat_map conjuncts ws) it p n F = eval_window ws it p n F.
Proof. unfold eval_window. rewrite (filter_ext _ _ (all_hold_flat (cols F) ws)). reflexivity. Qed.
Lemma eval_union_one p F : eval_block (mkBlock [] p false [] None) F = eval_union [p] F.
Proof.
  unfold eval_block, eval_union. cbn [b_where b_sel b_distinct b_order b_limit flat_map].
  rewrite sort_on_nil_keys by reflexivity. rewrite map_fst_pairs, app_nil_r.
  unfold all_hold. cbn [forallb]. rewrite filter_true by reflexivity. reflexivity.
Qed.
Lemma wf_eval_union_uniform parts F : uniform parts = true -> wf_frame (eval_union parts F).
Proof.
  intros Hu r Hr. cbn [eval_union rows cols] in *. apply in_flat_map in Hr. destruct Hr as [q [Hq Hr]].
  apply in_map_iff in Hr. destruct Hr as [r0 [<- _]]. unfold proj. rewrite map_length.
  destruct parts as [|p parts]; [contradiction|]. unfold uniform in Hu. rewrite forallb_forall in Hu.
  specialize (Hu q Hq). apply Nat.eqb_eq in Hu. unfold out_cols. rewrite map_length. exact Hu.
Qed.

Theorem snf_sound ss : forall input,
  wf_frame input -> eval_stages (snf (cols input) ss) input = eval_stages ss input.
Proof.
  induction ss as [|s ss IH]; intros input Hwf; [reflexivity|].
  destruct s as [b|ws k g|parts|ws it p n].
  - cbn [snf]. destruct (is_pass (cols input) b) eqn:E.
    + unfold is_pass in E. apply andb_true_iff in E. destruct E as [E1 E2].
      apply block_eqb_eq in E1. apply nodupb_sound in E2. subst b.
      cbn [eval_stages fold_left eval_stage]. rewrite eval_pass_block by assumption. apply IH; assumption.
    + cbn [eval_stages fold_left eval_stage]. rewrite eval_norm_block.
      rewrite <- cols_eval_block with (fr := input). apply IH. apply wf_eval_block.
  - cbn [snf eval_stages fold_left eval_stage]. rewrite eval_group_flat.
    change (k ++ map snd g) with (cols (eval_group ws k g input)). apply IH. apply wf_eval_group.
  - destruct parts as [|p [|q parts]].
    + cbn [snf eval_stages fold_left eval_stage uniform].
      change (@nil string) with (cols (eval_union [] input)) at 1. apply IH. apply wf_eval_union_uniform. reflexivity.
    + cbn [snf eval_stages fold_left eval_stage]. rewrite eval_union_one.
      change (out_cols p) with (cols (eval_union [p] input)). apply IH. rewrite <- eval_union_one. apply wf_eval_block.
    + cbn [snf]. destruct (uniform (p :: q :: parts)) eqn:Eu; [|reflexivity].
      cbn [eval_stages fold_left eval_stage].
      change (out_cols p) with (cols (eval_union (p :: q :: parts) input)). apply IH.
      apply wf_eval_union_uniform. exact Eu.
  - cbn [snf eval_stages fold_left eval_stage]. rewrite eval_window_flat.
    change (out_cols it ++ [n]) with (cols (eval_window ws it p n input)). apply IH. apply wf_eval_window.
Qed.

(** two stage lists with the same normal form denote the same function of the input, for every input *)
Corollary snf_equal_same_meaning ss1 ss2 input :
  wf_frame input -> list_eqb stage_eqb (snf (cols input) ss1) (snf (cols input) ss2) = true ->
  eval_stages ss1 input = eval_stages ss2 input.
Proof.
  intros Hwf H. apply (list_eqb_eq stage_eqb stage_eqb_eq) in H.
  rewrite <- (snf_sound ss1), <- (snf_sound ss2) by assumption. rewrite H. reflexivity.
Qed.
