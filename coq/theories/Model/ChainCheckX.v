(** Per-case verdicts for the wide C01 alphabet: [check_x] over block chains (model [run_x]; used by C12's engine
    check through its own copy) and [check_y] over stage lists (model [ChainStages.run_y]; what checks/c01.py runs). *)
From SF Require Export Model.ChainExt.
From SF Require Import Model.ChainG Model.ChainExtProof.
From SF Require Import Model.ChainStages.
Open Scope Z_scope.

Inductive xmode := XSeq | XBag | XSubOf (n : nat) | XDedup (subset : list string).

Record xcase := mkXCase {
  xc_input : frame;
  xc_ops : list xop;
  xc_mode : xmode;
  xc_exported : option (list block);
  xc_impl : option (list string * list row) }.

Definition all_core (xs : list xop) : option (list uop) :=
  fold_right (fun x acc => match x, acc with XCore u, Some us => Some (u :: us) | _, _ => None end) (Some []) xs.

Definition dedup_ok (cs subset : list string) (pre got : list row) : bool :=
  let keys := map (key_of cs subset) got in
  subbag got pre
  && Nat.eqb (List.length (dedup keys)) (List.length keys)
  && forallb (fun r => existsb (row_eqb (key_of cs subset r)) keys) pre.

Definition cmp_x (m : xmode) (cs : list string) (ref pre got : list row) : bool :=
  match m with
  | XSeq => rows_eqb ref got
  | XBag => bag_eqb ref got
  | XSubOf n => Nat.eqb (List.length got) (Nat.min n (List.length pre)) && subbag got pre
  | XDedup subset => dedup_ok cs subset pre got
  end.

Definition t2s (o : option bool) : string := match o with Some true => "1" | Some false => "0" | None => "2" end.

Section CheckX.
  Variable c : cfg.
  Variable deco : string -> option opk.

  (** t2 | impl=model | impl=spec | in the core theorem's domain (C01_partial: only core operations, [ops_ok]) |
      impl raised | same multiset as spec | in the wide theorem's domain (C01_partial_wide: [xs_ok], core operations,
      fillna, replace, toDF, dropna)   (2 = n/a) *)
  Definition check_x (k : xcase) : string :=
    let input := xc_input k in
    let ics := cols input in
    let spec := spec_xrun (xc_ops k) input in
    let pre := match xc_mode k with
               | XSubOf _ | XDedup _ => spec_xrun (removelast (xc_ops k)) input
               | _ => mkFrame [] [] end in
    let md := run_x c deco (init_df ics) (xc_ops k) in
    let mblocks := option_map (fun d => done d ++ [cur d]) md in
    let model := option_map (fun bs => eval_chain bs input) mblocks in
    let t2 := match mblocks, xc_exported k with
              | Some mb, Some bs => Some (list_eqb block_eqb (nf ics bs) (nf ics mb))
              | _, _ => None end in
    let dom := match all_core (xc_ops k) with
               | Some us => ops_ok c (init_df ics) ics (desugar_all ics us)
               | None => false end in
    let wdom := xs_ok c deco (init_df ics) ics (xc_ops k) && nodupb ics in
    match xc_impl k with
    | Some (gcols, grows) =>
        t2s t2
        ++ t2s (option_map (fun m => list_eqb String.eqb gcols (cols m)
                                     && cmp_x (xc_mode k) (cols pre) (rows m) (rows pre) grows) model)
        ++ b2s (list_eqb String.eqb gcols (cols spec) && cmp_x (xc_mode k) (cols pre) (rows spec) (rows pre) grows)
        ++ b2s dom ++ "0" ++ b2s (bag_eqb (rows spec) grows) ++ b2s wdom
    | None => t2s t2 ++ "20" ++ b2s dom ++ "10" ++ b2s wdom
    end.
End CheckX.

(** the same verdict over the whole alphabet: the model is the stage compiler [run_y] (GROUP BY / UNION ALL /
    ROW_NUMBER stages + blocks); the exported tree is a stage list too, compared up to the verified normal form
    [snf]; one more flag: in the domain [ys_ok] of the all-alphabet theorem *)
Record ycase := mkYCase {
  yc_input : frame;
  yc_ops : list xop;
  yc_mode : xmode;
  yc_exported : option (list stage);      (* the stages the implementation built, None if not exportable *)
  yc_impl : option (list string * list row) }.

Section CheckY.
  Variable c : cfg.
  Variable g : gcfg.
  Variable deco : string -> option opk.

  (** t2 | impl=model | impl=spec | core domain | impl raised | same multiset as spec | wide domain [xs_ok] |
      all-alphabet domain [ys_ok]     (2 = n/a) *)
  Definition check_y (k : ycase) : string :=
    let input := yc_input k in
    let ics := cols input in
    let spec := spec_xrun (yc_ops k) input in
    let pre := match yc_mode k with
               | XSubOf _ | XDedup _ => spec_xrun (removelast (yc_ops k)) input
               | _ => mkFrame [] [] end in
    let my := run_y c g deco (init_y ics) (yc_ops k) in
    let mstages := option_map all_stages my in
    let model := option_map (fun ss => eval_stages ss input) mstages in
    let t2 := match mstages, yc_exported k with
              | Some ss, Some es => Some (list_eqb stage_eqb (snf ics es) (snf ics ss))
              | _, _ => None end in
    let dom := match all_core (yc_ops k) with
               | Some us => ops_ok c (init_df ics) ics (desugar_all ics us)
               | None => false end in
    let wdom := xs_ok c deco (init_df ics) ics (yc_ops k) && nodupb ics in
    let ydom := ys_ok c g deco (init_y ics) (yc_ops k) && nodupb ics in
    match yc_impl k with
    | Some (gcols, grows) =>
        t2s t2
        ++ t2s (option_map (fun m => list_eqb String.eqb gcols (cols m)
                                     && cmp_x (yc_mode k) (cols pre) (rows m) (rows pre) grows) model)
        ++ b2s (list_eqb String.eqb gcols (cols spec) && cmp_x (yc_mode k) (cols pre) (rows spec) (rows pre) grows)
        ++ b2s dom ++ "0" ++ b2s (bag_eqb (rows spec) grows) ++ b2s wdom ++ b2s ydom
    | None => t2s t2 ++ "20" ++ b2s dom ++ "10" ++ b2s wdom ++ b2s ydom
    end.
End CheckY.

Definition deco_of (tbl : list (string * option opk)) (n : string) : option opk :=
  match find (fun p => String.eqb (fst p) n) tbl with Some (_, k) => k | None => None end.
