(** C01, the one case the exact theorem excludes: an orderBy written into a block that already has an
    ORDER BY (orderBy directly after orderBy).  The new keys replace the old ones, so the block sorts the
    un-sorted rows; Spark re-sorts the sorted rows.  Both are sorted by the new keys and are permutations of
    each other -- which is all Spark promises (its sort is not stable). *)
From SF Require Import Model.Chain Model.ChainProof.
From Coq Require Import Permutation Sorting.Sorted.
Open Scope Z_scope.

Lemma val_cmp_antisym a b : val_cmp a b = CompOpp (val_cmp b a).
Proof.
  destruct a, b; simpl; try reflexivity; try apply Z.compare_antisym;
    try apply String.compare_antisym; try (destruct b, b0; reflexivity).
Qed.

Lemma cmp_one_antisym d nf a b : cmp_one d nf a b = CompOpp (cmp_one d nf b a).
Proof.
  unfold cmp_one.
  destruct a, b; lazy beta iota;
    try (destruct nf; reflexivity); try reflexivity;
    match goal with
    | |- context [val_cmp ?x ?y] => rewrite (val_cmp_antisym x y)
    end; destruct d; rewrite ?CompOpp_involutive; reflexivity.
Qed.

Lemma cmp_keys_antisym cs ks r1 r2 :
  cmp_kv (eval_keys cs r1 ks) (eval_keys cs r2 ks) = CompOpp (cmp_kv (eval_keys cs r2 ks) (eval_keys cs r1 ks)).
Proof.
  induction ks as [|k ks IH]; simpl; [reflexivity|].
  rewrite (cmp_one_antisym (k_desc k) (k_nf k) (eval cs r1 (k_e k)) (eval cs r2 (k_e k))).
  destruct (cmp_one (k_desc k) (k_nf k) (eval cs r2 (k_e k)) (eval cs r1 (k_e k))); simpl; auto.
Qed.

Definition le_rows (cs : list string) (ks : list okey) (r1 r2 : row) : Prop :=
  le_kv (eval_keys cs r1 ks) (eval_keys cs r2 ks) = true.

Lemma le_rows_total cs ks r1 r2 : le_kv (eval_keys cs r1 ks) (eval_keys cs r2 ks) = false -> le_rows cs ks r2 r1.
Proof.
  unfold le_rows, le_kv. rewrite (cmp_keys_antisym cs ks r1 r2).
  destruct (cmp_kv (eval_keys cs r2 ks) (eval_keys cs r1 ks)); simpl; congruence.
Qed.

Lemma insert_sorted cs ks x l :
  LocallySorted (le_rows cs ks) l ->
  LocallySorted (le_rows cs ks) (insert (fun a b => le_kv (eval_keys cs a ks) (eval_keys cs b ks)) x l).
Proof.
  induction 1 as [|y|y z l Hl IH Hyz]; simpl.
  - constructor.
  - destruct (le_kv (eval_keys cs x ks) (eval_keys cs y ks)) eqn:E.
    + constructor; [constructor | exact E].
    + constructor; [constructor | apply le_rows_total; exact E].
  - destruct (le_kv (eval_keys cs x ks) (eval_keys cs y ks)) eqn:E.
    + constructor; [constructor; assumption | exact E].
    + simpl in IH. destruct (le_kv (eval_keys cs x ks) (eval_keys cs z ks)) eqn:E2.
      * constructor; [exact IH | apply le_rows_total; exact E].
      * constructor; [exact IH | exact Hyz].
Qed.

Lemma sort_on_sorted cs ks l :
  LocallySorted (le_rows cs ks) (sort_on (fun r => eval_keys cs r ks) l).
Proof.
  unfold sort_on, SF.Base.Sort.sort. induction l as [|x l IH]; simpl; [constructor|].
  apply insert_sorted. exact IH.
Qed.

Lemma spec_order_perm ks X Y :
  cols X = cols Y -> Permutation (rows X) (rows Y) ->
  Permutation (rows (spec_step (OOrderBy ks) X)) (rows (spec_step (OOrderBy ks) Y)).
Proof.
  intros Hc Hp. simpl. rewrite Hc.
  etransitivity; [symmetry; apply sort_on_perm|]. etransitivity; [exact Hp | apply sort_on_perm].
Qed.

Section Replace.
  Variable c : cfg.
  Hypothesis Hrep : order_append c = false.

  Definition clear_order (b : block) : block := set_order b [].

  Lemma body_order_same b ks : body c (OOrderBy ks) b = body c (OOrderBy ks) (clear_order b).
  Proof. unfold body, clear_order, set_order; simpl. rewrite Hrep. reflexivity. Qed.

  Lemma eval_cleared_perm b S :
    b_limit b = None ->
    cols (eval_block b S) = cols (eval_block (clear_order b) S) /\
    Permutation (rows (eval_block (clear_order b) S)) (rows (eval_block b S)).
  Proof.
    intro Hl. split; [reflexivity|].
    unfold eval_block, clear_order; simpl. rewrite Hl.
    rewrite (sort_on_nil_keys (okeys (cols S) (out_cols (b_sel b)) [])) by reflexivity.
    apply Permutation_map. apply sort_on_perm.
  Qed.

  (** the block-level statement *)
  Theorem orderby_replaces b S ks :
    b_limit b = None -> wf_frame S -> NoDup (cols S) ->
    forallb (key_ok (is_simple b (cols S)) (out_cols (b_sel b))) ks = true ->
    let R := eval_block (body c (OOrderBy ks) b) S in
    let P := eval_block b S in
    cols R = cols P /\
    Permutation (rows R) (rows (spec_step (OOrderBy ks) P)) /\
    LocallySorted (le_rows (cols R) ks) (rows R).
  Proof.
    intros Hl Hwf Hnd Hk R P.
    assert (E : R = spec_step (OOrderBy ks) (eval_block (clear_order b) S)).
    { subst R. rewrite body_order_same.
      apply (body_order c); auto.
      intro Hs. apply is_simple_sound. exact Hs. }
    destruct (eval_cleared_perm b S Hl) as [Hc Hp].
    split; [rewrite E; reflexivity|]. split.
    - rewrite E. apply spec_order_perm; [symmetry; exact Hc | exact Hp].
    - rewrite E. simpl. apply sort_on_sorted.
  Qed.
End Replace.
