(** C01 core: sqlframe's clause-ordering rule as a compiler from DataFrame operations to a chain of
    SELECT blocks, and its correctness against the sequential (PySpark) meaning, for every
    operation list and every input frame.

    What is generated from /repo (tie T1) and what is hand-modelled:
    - [wrap_needed], [kind_of], [init_wraps], [order_append], [limit_merge] are PARAMETERS here;
      Props/C01_inst.v instantiates them with the definitions regenerated from
      sqlframe/base/operations.py and dataframe.py and discharges the side conditions [cfg_ok].
    - the bodies ([body]) restate what each DataFrame method writes into the open SELECT. *)
From SF Require Export Sql.Norm.
From Coq Require Import Permutation.
Open Scope Z_scope.

Inductive opk := INIT | NO_OP | FROM | WHERE | GROUP_BY | HAVING | SELECT | ORDER_BY | LIMIT.
Definition opk_eqb (a b : opk) : bool :=
  match a, b with
  | INIT, INIT | NO_OP, NO_OP | FROM, FROM | WHERE, WHERE | GROUP_BY, GROUP_BY | HAVING, HAVING
  | SELECT, SELECT | ORDER_BY, ORDER_BY | LIMIT, LIMIT => true
  | _, _ => false
  end.
Definition all_opk := [INIT; NO_OP; FROM; WHERE; GROUP_BY; HAVING; SELECT; ORDER_BY; LIMIT].

(** what a last-operation tag claims about the open block: no clause later than this is present *)
Definition claim (k : opk) : Z :=
  match k with
  | INIT | NO_OP | FROM => 1 | WHERE => 2 | GROUP_BY => 3 | HAVING => 4
  | SELECT => 5 | ORDER_BY => 6 | LIMIT => 7
  end.

Inductive op :=
| OSelect (items : list (expr * string))
| OWhere (e : expr)
| OOrderBy (ks : list okey)
| OLimit (n : nat)
| ODistinct.

Inductive opname := NSelect | NWhere | NOrderBy | NLimit | NDistinct.
Definition name_of (o : op) : opname :=
  match o with OSelect _ => NSelect | OWhere _ => NWhere | OOrderBy _ => NOrderBy
             | OLimit _ => NLimit | ODistinct => NDistinct end.
Definition all_names := [NSelect; NWhere; NOrderBy; NLimit; NDistinct].
(** the clause a method body really writes *)
Definition crank (n : opname) : Z :=
  match n with NWhere => 2 | NSelect | NDistinct => 5 | NOrderBy => 6 | NLimit => 7 end.

(** * The sequential meaning (PySpark) *)
Definition spec_step (o : op) (fr : frame) : frame :=
  match o with
  | OSelect items => mkFrame (out_cols items) (map (proj (cols fr) items) (rows fr))
  | OWhere e => mkFrame (cols fr) (filter (fun r => holds (cols fr) r e) (rows fr))
  | OOrderBy ks => mkFrame (cols fr) (sort_on (fun r => eval_keys (cols fr) r ks) (rows fr))
  | OLimit n => mkFrame (cols fr) (firstn n (rows fr))
  | ODistinct => mkFrame (cols fr) (dedup (rows fr))
  end.
Definition spec_run (ops : list op) (fr : frame) : frame := fold_left (fun f o => spec_step o f) ops fr.

(** * The compiler *)
Record df := mkDf { done : list block; cur : block; last : opk }.

Definition set_where b w := mkBlock w (b_sel b) (b_distinct b) (b_order b) (b_limit b).
Definition set_sel b s := mkBlock (b_where b) s (b_distinct b) (b_order b) (b_limit b).
Definition set_distinct b d := mkBlock (b_where b) (b_sel b) d (b_order b) (b_limit b).
Definition set_order b o := mkBlock (b_where b) (b_sel b) (b_distinct b) o (b_limit b).
Definition set_limit b l := mkBlock (b_where b) (b_sel b) (b_distinct b) (b_order b) l.

Definition wrap (d : df) : df :=
  mkDf (done d ++ [cur d]) (pass_block (out_cols (b_sel (cur d)))) (last d).
Definition set_last (d : df) (k : opk) : df := mkDf (done d) (cur d) k.

Record cfg := mkCfg {
  wrap_needed : opk -> opk -> bool;     (* the `if` of operation.wrapper *)
  kind_of : opname -> opk;              (* the decorator argument of each method *)
  init_wraps : bool;                    (* INIT forces a CTE *)
  order_append : bool;                  (* does orderBy append to an existing ORDER BY? *)
  limit_merge : Z -> Z -> Z }.          (* how limit combines with an existing LIMIT *)

Section Compile.
  Variable c : cfg.

  Definition body (o : op) (b : block) : block :=
    match o with
    | OSelect items => set_sel b items
    | OWhere e => set_where b (b_where b ++ [e])
    | OOrderBy ks => set_order b (if order_append c then b_order b ++ ks else ks)
    | OLimit n => set_limit b (Some (match b_limit b with
                                     | Some m => Z.to_nat (limit_merge c (Z.of_nat n) (Z.of_nat m))
                                     | None => n end))
    | ODistinct => set_distinct b true
    end.

  Definition pre_init (d : df) : df :=
    if opk_eqb (last d) INIT then set_last (if init_wraps c then wrap d else d) NO_OP else d.
  Definition new_kind (o : op) (l : opk) : opk :=
    let k := kind_of c (name_of o) in if opk_eqb k NO_OP then l else k.
  Definition pre_wrap (o : op) (d : df) : df :=
    if wrap_needed c (last d) (new_kind o (last d)) then wrap d else d.
  Definition step (d : df) (o : op) : df :=
    let d0 := pre_init d in
    let d1 := pre_wrap o d0 in
    mkDf (done d1) (body o (cur d1)) (new_kind o (last d0)).
  Definition compile (ops : list op) (d : df) : df := fold_left step ops d.

  Definition source (d : df) (input : frame) : frame := fold_left (fun fr b => eval_block b fr) (done d) input.
  Definition eval_df (d : df) (input : frame) : frame := eval_block (cur d) (source d input).

  (** ** Side conditions on the generated facts (decidable; instantiated by vm_compute) *)
  Definition reach : list opk := [INIT; NO_OP; FROM; SELECT] ++ map (kind_of c) all_names.
  Definition pair_ok (l : opk) (n : opname) : bool :=
    let new := (let k := kind_of c n in if opk_eqb k NO_OP then l else k) in
    (crank n <=? claim new) &&
    (wrap_needed c l new ||
     ((claim l <=? crank n) && (negb (crank n =? 5) || (claim l <? 5)))).
  Definition cfg_ok : bool :=
    forallb (fun l => forallb (pair_ok l) all_names) reach.
  Definition limit_ok : Prop := forall a b, 0 <= a -> 0 <= b -> limit_merge c a b = Z.min a b.

  (** ** Domain of the theorem: what an operation must satisfy in the state it is applied to *)
  Definition key_ok (simple : bool) (ocs : list string) (k : okey) : bool :=
    match k_e k with
    | ECol n => mem n ocs
    | e => simple && cols_in ocs e
    end.
  Definition is_simple (b : block) (src : list string) : bool :=
    forallb (fun p => match p with ((ECol n, m), s) => String.eqb n m && String.eqb m s | _ => false end)
            (combine (b_sel b) src)
    && Nat.eqb (List.length (b_sel b)) (List.length src).

  Definition src_cols (d : df) (ics : list string) : list string :=
    match rev (done d) with b :: _ => out_cols (b_sel b) | [] => ics end.

  Definition op_ok (d : df) (ics : list string) (o : op) : bool :=
    let d1 := pre_wrap o (pre_init d) in
    match o with
    | OSelect items => nodupb (out_cols items)
    | OOrderBy ks =>
        (match b_order (cur d1) with [] => true | _ => false end) &&
        forallb (key_ok (is_simple (cur d1) (src_cols d1 ics)) (out_cols (b_sel (cur d1)))) ks
    | _ => true
    end.
  Fixpoint ops_ok (d : df) (ics : list string) (ops : list op) : bool :=
    match ops with
    | [] => true
    | o :: ops' => op_ok d ics o && ops_ok (step d o) ics ops'
    end.

  (** ** Invariant linking the last-operation tag to the clauses present *)
  Definition Inv (d : df) (ics : list string) : Prop :=
    (claim (last d) < 5 -> b_sel (cur d) = passthrough (src_cols d ics) /\ b_distinct (cur d) = false) /\
    (claim (last d) < 6 -> b_order (cur d) = []) /\
    (claim (last d) < 7 -> b_limit (cur d) = None) /\
    NoDup (src_cols d ics) /\ NoDup (out_cols (b_sel (cur d))).
End Compile.

Definition init_df (ics : list string) : df := mkDf [] (pass_block ics) INIT.
