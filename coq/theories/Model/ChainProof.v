(** Correctness of the clause-ordering compiler (C01 core). *)
From SF Require Import Model.Chain.
From Coq Require Import Permutation.
Open Scope Z_scope.

Section Proof.
  Variable c : cfg.
  Hypothesis Hcfg : cfg_ok c = true.
  Hypothesis Hlim : limit_ok c.

  Notation step := (step c).
  Notation eval_df := (eval_df).

  Definition Simple (b : block) (src : list string) : Prop :=
    b_sel b = passthrough src /\ b_distinct b = false /\ b_order b = [] /\ b_limit b = None.

  (** ** Body lemmas: adding a clause to a block that has no later clause equals applying the
      operation to the block's result *)
  Lemma body_where b S e :
    Simple b (cols S) -> wf_frame S -> NoDup (cols S) ->
    eval_block (body c (OWhere e) b) S = spec_step (OWhere e) (eval_block b S).
  Proof.
    intros (Hs & Hd & Ho & Hl) Hwf Hnd.
    rewrite (eval_simple_block b S); auto.
    rewrite (eval_simple_block (body c (OWhere e) b) S); auto.
    simpl. f_equal. apply filter_app_conj.
  Qed.

  Lemma body_select b S items :
    Simple b (cols S) -> wf_frame S -> NoDup (cols S) ->
    eval_block (body c (OSelect items) b) S = spec_step (OSelect items) (eval_block b S).
  Proof.
    intros (Hs & Hd & Ho & Hl) Hwf Hnd.
    rewrite (eval_simple_block b S); auto.
    unfold eval_block; simpl. rewrite Hd, Ho, Hl.
    rewrite sort_on_nil_keys by reflexivity. rewrite map_fst_pairs. reflexivity.
  Qed.

  Lemma map_proj_pass S (l : list row) :
    wf_frame S -> NoDup (cols S) -> (forall r, In r l -> In r (rows S)) ->
    map (proj (cols S) (passthrough (cols S))) l = l.
  Proof.
    intros Hwf Hnd Hin. rewrite <- (map_id l) at 2. apply map_ext_in.
    intros r Hr. apply proj_passthrough; auto.
  Qed.

  Lemma body_distinct b S :
    Simple b (cols S) -> wf_frame S -> NoDup (cols S) ->
    eval_block (body c ODistinct b) S = spec_step ODistinct (eval_block b S).
  Proof.
    intros (Hs & Hd & Ho & Hl) Hwf Hnd.
    rewrite (eval_simple_block b S); auto.
    unfold eval_block; simpl. rewrite Hs, Ho, Hl, out_cols_passthrough.
    rewrite sort_on_nil_keys by reflexivity. f_equal.
    rewrite map_fst_dedup_on, map_fst_pairs. unfold dedup. f_equal.
    apply map_proj_pass; auto. intros r Hr. apply filter_In in Hr. tauto.
  Qed.

  Lemma lookup_app_same cs (r : row) n :
    List.length r = List.length cs -> lookup (cs ++ cs) (r ++ r) n = lookup cs r n.
  Proof.
    intro Hl. unfold lookup.
    assert (H : forall cs2, index_of n (cs ++ cs2) =
                match index_of n cs with Some i => Some i
                | None => option_map (fun i => (List.length cs + i)%nat) (index_of n cs2) end).
    { intro cs2. induction cs as [|x cs' IH] in r, Hl |- *; simpl.
      - destruct (index_of n cs2); reflexivity.
      - destruct (String.eqb x n); [reflexivity|].
        destruct r as [|v r']; [discriminate|]. simpl in Hl.
        rewrite (IH r') by lia. destruct (index_of n cs'); simpl; [reflexivity|].
        destruct (index_of n cs2); reflexivity. }
    rewrite H. destruct (index_of n cs) as [i|] eqn:E.
    - apply index_of_lt in E. rewrite nth_error_app1 by lia. reflexivity.
    - reflexivity.
  Qed.

  Lemma body_order b S ks :
    b_order b = [] -> b_limit b = None -> wf_frame S -> NoDup (cols S) ->
    forallb (key_ok (is_simple b (cols S)) (out_cols (b_sel b))) ks = true ->
    (is_simple b (cols S) = true -> b_sel b = passthrough (cols S)) ->
    eval_block (body c (OOrderBy ks) b) S = spec_step (OOrderBy ks) (eval_block b S).
  Proof.
    intros Ho Hl Hwf Hnd Hk Hsimp.
    assert (E : (if order_append c then b_order b ++ ks else ks) = ks).
    { rewrite Ho. destruct (order_append c); reflexivity. }
    unfold eval_block; simpl. rewrite E, Ho, Hl. simpl.
    rewrite (sort_on_nil_keys (okeys (cols S) (out_cols (b_sel b)) [])) by reflexivity.
    f_equal.
    set (ps := if b_distinct b then _ else _).
    assert (Hps : forall p, In p ps -> fst p = proj (cols S) (b_sel b) (snd p) /\ In (snd p) (rows S)).
    { intros p Hp. subst ps.
      assert (Hb : In p (map (fun r => (proj (cols S) (b_sel b) r, r))
                             (filter (all_hold (cols S) (b_where b)) (rows S)))).
      { destruct (b_distinct b); [|exact Hp].
        revert Hp. generalize (@nil row).
        induction (map _ _) as [|x l IH]; intros seen Hp; simpl in *; [contradiction|].
        destruct (existsb (row_eqb (fst x)) seen); [right; eauto|].
        destruct Hp as [<-|Hp]; [left; reflexivity | right; eauto]. }
      apply in_map_iff in Hb. destruct Hb as [r [<- Hr]]. simpl. split; [reflexivity|].
      apply filter_In in Hr. tauto. }
    rewrite (sort_on_ext_in (okeys (cols S) (out_cols (b_sel b)) ks)
                            (fun p => eval_keys (out_cols (b_sel b)) (fst p) ks) ps).
    - apply map_sort_on. reflexivity.
    - intros p Hp. destruct (Hps p Hp) as [Hfst Hin].
      unfold okeys, eval_keys. apply map_ext_in. intros k Hkin.
      f_equal. f_equal.
      rewrite forallb_forall in Hk. specialize (Hk k Hkin).
      unfold key_ok in Hk. unfold eval_okey.
      destruct (k_e k) as [n| | | | | | |] eqn:Ek;
        try (apply andb_true_iff in Hk; destruct Hk as [Hs Hc];
             specialize (Hsimp Hs);
             apply eval_ext; intros n0 _;
             rewrite Hsimp, out_cols_passthrough, Hfst, Hsimp;
             rewrite proj_passthrough by (auto);
             apply lookup_app_same; auto).
      rewrite Hk. reflexivity.
  Qed.

  Lemma body_limit b S n :
    eval_block (body c (OLimit n) b) S = spec_step (OLimit n) (eval_block b S).
  Proof.
    unfold eval_block; simpl. f_equal.
    destruct (b_limit b) as [m|]; simpl.
    - rewrite Hlim by lia. rewrite <- firstn_map. rewrite <- (firstn_map fst m).
      rewrite firstn_firstn. f_equal.
      rewrite <- Nat2Z.inj_min, Nat2Z.id. reflexivity.
    - rewrite firstn_map. reflexivity.
  Qed.

  (** ** Frames flowing through the chain are well-shaped *)
  Lemma source_snoc d input :
    source (wrap d) input = eval_df d input.
  Proof. unfold source, eval_df, wrap; simpl. rewrite fold_left_app. reflexivity. Qed.

  Lemma wf_source d input : wf_frame input -> wf_frame (source d input).
  Proof.
    unfold source. generalize input. induction (done d) as [|b bs IH]; simpl; intros i Hi; [exact Hi|].
    apply IH. apply wf_eval_block.
  Qed.

  Lemma cols_source d input : cols (source d input) = src_cols d (cols input).
  Proof.
    unfold source, src_cols. destruct (done d) as [|b bs] using rev_ind; simpl; [reflexivity|].
    rewrite fold_left_app, rev_app_distr. reflexivity.
  Qed.

  Lemma src_cols_wrap d ics : src_cols (wrap d) ics = out_cols (b_sel (cur d)).
  Proof. unfold src_cols, wrap; simpl. rewrite rev_app_distr. reflexivity. Qed.

  Lemma wrap_eval d input :
    NoDup (out_cols (b_sel (cur d))) -> eval_df (wrap d) input = eval_df d input.
  Proof.
    intro Hnd. unfold eval_df at 1. rewrite source_snoc. simpl.
    change (out_cols (b_sel (cur d))) with (cols (eval_df d input)).
    apply eval_pass_block; [apply wf_eval_block | exact Hnd].
  Qed.

  Lemma inv_wrap d ics k : Inv d ics -> Inv (set_last (wrap d) k) ics.
  Proof.
    intros (_ & _ & _ & _ & Hnd). unfold Inv.
    change (src_cols (set_last (wrap d) k) ics) with (src_cols (wrap d) ics).
    rewrite (src_cols_wrap d ics).
    cbn [cur set_last wrap pass_block b_sel b_distinct b_order b_limit last].
    rewrite out_cols_passthrough. tauto.
  Qed.

  (** what the body of operation [n] needs from the open block *)
  Definition Ready (n : opname) (d : df) (ics : list string) : Prop :=
    (crank n <= 5 -> Simple (cur d) (src_cols d ics)) /\ (crank n = 6 -> b_limit (cur d) = None) /\ NoDup (src_cols d ics) /\ NoDup (out_cols (b_sel (cur d))).

  Lemma ready_wrap d ics n k : Inv d ics -> Ready n (set_last (wrap d) k) ics.
  Proof.
    intros (_ & _ & _ & _ & Hnd). unfold Ready, Simple.
    change (src_cols (set_last (wrap d) k) ics) with (src_cols (wrap d) ics).
    rewrite (src_cols_wrap d ics).
    cbn [cur set_last wrap pass_block b_sel b_distinct b_order b_limit last].
    rewrite out_cols_passthrough. tauto.
  Qed.

  Lemma is_simple_sound b src : is_simple b src = true -> b_sel b = passthrough src.
  Proof.
    unfold is_simple. intro H. apply andb_true_iff in H. destruct H as [H Hl].
    apply Nat.eqb_eq in Hl. revert src H Hl.
    induction (b_sel b) as [|[e m] l IH]; intros [|s src] H Hl; simpl in *; try discriminate; [reflexivity|].
    apply andb_true_iff in H. destruct H as [H1 H2].
    destruct e; try discriminate. apply andb_true_iff in H1. destruct H1 as [Ha Hb].
    apply String.eqb_eq in Ha, Hb. subst. f_equal. apply IH; auto.
  Qed.

  Definition InvR (d : df) (ics : list string) : Prop := Inv d ics /\ In (last d) (reach c).

  Lemma reach_kind n : In (kind_of c n) (reach c).
  Proof. unfold reach. apply in_or_app. right. apply in_map. destruct n; simpl; tauto. Qed.

  Lemma pair_ok_of d ics o :
    InvR d ics -> pair_ok c (last d) (name_of o) = true.
  Proof.
    intros [_ Hr]. unfold cfg_ok in Hcfg. rewrite forallb_forall in Hcfg.
    specialize (Hcfg _ Hr). rewrite forallb_forall in Hcfg. apply Hcfg.
    destruct o; simpl; tauto.
  Qed.

  Ltac inv_tac :=
    unfold Inv; refine (conj _ (conj _ (conj _ (conj _ _)))); simpl;
    [ intro; first [lia | split; assumption]
    | intro; first [lia | assumption]
    | intro; first [lia | assumption]
    | assumption
    | try assumption ].

  (** ** One step *)
  Theorem step_correct d ics input o :
    cols input = ics -> wf_frame input -> InvR d ics -> op_ok c d ics o = true ->
    eval_df (step d o) input = spec_step o (eval_df d input) /\ InvR (step d o) ics.
  Proof.
    intros Hics Hwf HI Hok.
    (* phase 0: INIT *)
    assert (H0 : InvR (pre_init c d) ics /\ eval_df (pre_init c d) input = eval_df d input).
    { unfold pre_init. destruct (opk_eqb (last d) INIT) eqn:Ei; [|tauto].
      destruct HI as [HI Hr]. destruct (init_wraps c).
      - split; [split; [apply inv_wrap; exact HI | unfold reach; simpl; tauto]|].
        unfold eval_df; simpl. apply wrap_eval. destruct HI as (_&_&_&_&Hn); exact Hn.
      - split; [|reflexivity]. split; [|unfold reach; simpl; tauto].
        destruct (last d) eqn:El; try discriminate.
        unfold Inv in *. rewrite El in HI. exact HI. }
    destruct H0 as [HI0 He0]. rewrite <- He0. clear He0.
    unfold op_ok in Hok. unfold step.
    set (d0 := pre_init c d) in *. clearbody d0. clear HI d.
    pose proof (pair_ok_of d0 ics o HI0) as Hp.
    unfold pair_ok in Hp. fold (new_kind c o (last d0)) in Hp.
    set (new := new_kind c o (last d0)) in *.
    apply andb_true_iff in Hp. destruct Hp as [Hnew Hp]. apply Z.leb_le in Hnew.
    (* phase 1: wrap or not; either way the block is Ready and evaluates the same *)
    assert (H1 : Ready (name_of o) (pre_wrap c o d0) ics /\ eval_df (pre_wrap c o d0) input = eval_df d0 input /\ (claim (last d0) < 7 \/ True)).
    { unfold pre_wrap. fold new. destruct HI0 as [HI0 _].
      destruct (wrap_needed c (last d0) new) eqn:Ew.
      - split; [apply (ready_wrap d0 ics (name_of o) (last d0) HI0)|].
        split; [|tauto]. apply wrap_eval. destruct HI0 as (_&_&_&_&Hn); exact Hn.
      - simpl in Hp. apply andb_true_iff in Hp. destruct Hp as [Hle Hsel]. apply Z.leb_le in Hle.
        split; [|split; [reflexivity|tauto]].
        destruct HI0 as (Ha & Hb & Hc & Hn1 & Hn2). unfold Ready, Simple.
        split; [|split; [|tauto]].
        + intro H5.
          assert (claim (last d0) < 5).
          { apply orb_true_iff in Hsel. destruct Hsel as [Hsel|Hsel].
            - apply negb_true_iff, Z.eqb_neq in Hsel. lia.
            - apply Z.ltb_lt in Hsel; exact Hsel. }
          destruct Ha as [Ha1 Ha2]; [lia|]. rewrite Hb, Hc by lia. tauto.
        + intro H6. apply Hc. lia. }
    destruct H1 as (HR & He1 & _). rewrite <- He1. clear He1.
    set (d1 := pre_wrap c o d0) in *. clearbody d1.
    destruct HR as (HS & HL & Hn1 & Hn2).
    pose proof (cols_source d1 input) as Hcs. rewrite Hics in Hcs.
    pose proof (wf_source d1 input Hwf) as Hwfs.
    assert (Hreach : In new (reach c)).
    { subst new. unfold new_kind. destruct (opk_eqb (kind_of c (name_of o)) NO_OP).
      - destruct HI0; assumption.
      - apply reach_kind. }
    change (eval_df {| done := done d1; cur := body c o (cur d1); last := new |} input)
      with (eval_block (body c o (cur d1)) (source d1 input)).
    change (eval_df d1 input) with (eval_block (cur d1) (source d1 input)).
    set (S := source d1 input) in *. clearbody S.
    destruct o as [items|e|ks|n|]; simpl in *.
    - (* select *)
      destruct (HS ltac:(lia)) as (Hs & Hd & Ho & Hl).
      split.
      + apply body_select; [unfold Simple; rewrite Hcs; tauto | exact Hwfs | rewrite Hcs; exact Hn1].
      + split; [|exact Hreach]. inv_tac.
        apply nodupb_sound; exact Hok.
    - (* where *)
      destruct (HS ltac:(lia)) as (Hs & Hd & Ho & Hl).
      split.
      + apply body_where; [unfold Simple; rewrite Hcs; tauto | exact Hwfs | rewrite Hcs; exact Hn1].
      + split; [|exact Hreach]. inv_tac.
    - (* orderBy *)
      specialize (HL eq_refl).
      apply andb_true_iff in Hok. destruct Hok as [Hnil Hk].
      assert (Ho : b_order (cur d1) = []) by (destruct (b_order (cur d1)); [reflexivity|discriminate]).
      split.
      + apply body_order; auto.
        * rewrite Hcs; exact Hn1.
        * rewrite Hcs; exact Hk.
        * rewrite Hcs. apply is_simple_sound.
      + split; [|exact Hreach]. inv_tac.
    - (* limit *)
      split; [apply body_limit|].
      split; [|exact Hreach]. inv_tac.
    - (* distinct *)
      destruct (HS ltac:(lia)) as (Hs & Hd & Ho & Hl).
      split.
      + apply body_distinct; [unfold Simple; rewrite Hcs; tauto | exact Hwfs | rewrite Hcs; exact Hn1].
      + split; [|exact Hreach]. inv_tac.
  Qed.

  (** ** Every operation list, every input *)
  Theorem chain_correct ops : forall d ics input,
    cols input = ics -> wf_frame input -> InvR d ics -> ops_ok c d ics ops = true ->
    eval_df (compile c ops d) input = spec_run ops (eval_df d input).
  Proof.
    induction ops as [|o ops IH]; intros d ics input Hics Hwf HI Hok; simpl; [reflexivity|].
    simpl in Hok. apply andb_true_iff in Hok. destruct Hok as [Ho Hops].
    destruct (step_correct d ics input o Hics Hwf HI Ho) as [He HI'].
    rewrite <- He. apply (IH _ ics); auto.
  Qed.

  Lemma init_inv ics : NoDup ics -> InvR (init_df ics) ics.
  Proof.
    intro Hnd. split; [|unfold reach; simpl; tauto].
    unfold Inv, init_df; simpl. rewrite out_cols_passthrough. tauto.
  Qed.

  Lemma eval_init input : wf_frame input -> NoDup (cols input) -> eval_df (init_df (cols input)) input = input.
  Proof. intros. unfold eval_df, init_df, source; simpl. apply eval_pass_block; auto. Qed.

  (** the statement C01 uses: from a created DataFrame, for all operation lists and inputs *)
  Corollary chain_from_input ops input :
    wf_frame input -> NoDup (cols input) -> ops_ok c (init_df (cols input)) (cols input) ops = true ->
    eval_df (compile c ops (init_df (cols input))) input = spec_run ops input.
  Proof.
    intros Hwf Hnd Hok.
    rewrite (chain_correct ops _ (cols input) input eq_refl Hwf (init_inv _ Hnd) Hok).
    rewrite eval_init; auto.
  Qed.
End Proof.
