(** C01: the chain invariant generalised to open blocks that read a source with HIDDEN columns.

    dropna (decorated Operation.FROM) leaves behind an open block [SELECT <all columns> FROM cte WHERE num_nulls < k]
    whose source still carries the helper column num_nulls while the tag says "nothing later than FROM":
    the block is a filter followed by a projection onto a SUB-list of the source columns.  [Chain.Inv]
    (select list = every source column) does not hold there.  [GInv] weakens exactly that clause; the price is
    a visible side condition on the next where/select written into such a block: it must not mention a hidden
    column ([hf_ok]; vacuous when nothing is hidden, i.e. in every state reachable without dropna). *)
From SF Require Import Model.Chain Model.ChainProof.
From Coq Require Import Lia.
Open Scope Z_scope.

(** * Lists and lookups *)
Lemma mem_In n l : mem n l = true <-> In n l.
Proof.
  unfold mem. rewrite existsb_exists. split.
  - intros [x [Hx E]]. apply String.eqb_eq in E. subst. exact Hx.
  - intro H. exists n. split; [exact H | apply String.eqb_refl].
Qed.

Lemma index_of_None n l : ~ In n l -> index_of n l = None.
Proof.
  induction l as [|x l IH]; simpl; intro H; [reflexivity|].
  destruct (String.eqb x n) eqn:E.
  - apply String.eqb_eq in E. subst. exfalso. apply H. left. reflexivity.
  - rewrite IH; [reflexivity|]. intro Hin. apply H. right. exact Hin.
Qed.

Lemma index_of_In n l : In n l -> exists i, index_of n l = Some i.
Proof.
  induction l as [|x l IH]; simpl; intro H; [contradiction|].
  destruct (String.eqb x n) eqn:E; [eexists; reflexivity|].
  destruct H as [H|H]; [subst; rewrite String.eqb_refl in E; discriminate|].
  destruct (IH H) as [i Hi]. rewrite Hi. eexists; reflexivity.
Qed.

Lemma lookup_In cs (r : row) n : In n cs -> List.length r = List.length cs -> exists v, lookup cs r n = Some v.
Proof.
  intros Hin Hl. unfold lookup. destruct (index_of_In n cs Hin) as [i Hi]. rewrite Hi.
  apply index_of_lt in Hi. destruct (nth_error r i) eqn:E; [eexists; reflexivity|].
  apply nth_error_None in E. lia.
Qed.

Lemma lookup_notin cs (r : row) n : ~ In n cs -> lookup cs r n = None.
Proof. intro H. unfold lookup. rewrite index_of_None; auto. Qed.

Lemma lookup_proj_pass cs vis r n :
  NoDup vis -> In n vis -> lookup vis (proj cs (passthrough vis) r) n = Some (eval cs r (ECol n)).
Proof.
  intros Hnd Hin. destruct (In_nth_error _ _ Hin) as [i Hi].
  unfold lookup. rewrite (index_of_nth _ Hnd _ _ Hi).
  unfold proj, passthrough. rewrite map_map. cbn [fst].
  exact (map_nth_error (fun x => eval cs r (ECol x)) i vis Hi).
Qed.

Lemma filter_map_swap {A B} (f : B -> bool) (f' : A -> bool) (g : A -> B) l :
  (forall x, In x l -> f (g x) = f' x) -> filter f (map g l) = map g (filter f' l).
Proof.
  induction l as [|x l IH]; simpl; intro H; [reflexivity|].
  rewrite (H x) by (left; reflexivity). rewrite IH by (intros; apply H; right; assumption).
  destruct (f' x); reflexivity.
Qed.

(** * Expressions that do not mention hidden columns evaluate the same before and after the projection *)
Definition hfree (hid : list string) (e : expr) : bool := forallb (fun n => negb (mem n hid)) (ecols e).
Definition hid_cols (vis cs : list string) : list string := filter (fun n => negb (mem n vis)) cs.

Lemma eval_proj_vis cs vis (r : row) e :
  NoDup vis -> incl vis cs -> List.length r = List.length cs ->
  hfree (hid_cols vis cs) e = true ->
  eval vis (proj cs (passthrough vis) r) e = eval cs r e.
Proof.
  intros Hnd Hincl Hl Hf. apply eval_ext. intros n Hn.
  unfold hfree in Hf. rewrite forallb_forall in Hf. specialize (Hf n Hn).
  apply negb_true_iff in Hf.
  destruct (mem n vis) eqn:Ev.
  - apply mem_In in Ev. rewrite (lookup_proj_pass cs vis r n Hnd Ev).
    destruct (lookup_In cs r n (Hincl _ Ev) Hl) as [v Hv]. simpl. rewrite Hv. reflexivity.
  - assert (Hnv : ~ In n vis) by (intro H; apply mem_In in H; congruence).
    assert (Hnc : ~ In n cs).
    { intro H. assert (Hh : In n (hid_cols vis cs)).
      { unfold hid_cols. apply filter_In. split; [exact H|]. rewrite Ev. reflexivity. }
      apply mem_In in Hh. congruence. }
    rewrite (lookup_notin _ _ _ Hnv), (lookup_notin _ _ _ Hnc). reflexivity.
Qed.

(** a filter followed by a projection onto some of the source's columns *)
Definition GSimple (b : block) (src : list string) : Prop :=
  b_sel b = passthrough (out_cols (b_sel b)) /\ incl (out_cols (b_sel b)) src /\
  b_distinct b = false /\ b_order b = [] /\ b_limit b = None.

Lemma simple_gsimple b src : Simple b src -> GSimple b src.
Proof.
  intros (Hs & Hd & Ho & Hl). unfold GSimple. rewrite Hs, out_cols_passthrough.
  repeat split; auto. apply incl_refl.
Qed.

Lemma eval_gsimple b S :
  b_distinct b = false -> b_order b = [] -> b_limit b = None ->
  eval_block b S = mkFrame (out_cols (b_sel b))
                     (map (proj (cols S) (b_sel b)) (filter (all_hold (cols S) (b_where b)) (rows S))).
Proof.
  intros Hd Ho Hl. unfold eval_block. rewrite Hd, Ho, Hl.
  rewrite sort_on_nil_keys by reflexivity. rewrite map_fst_pairs. reflexivity.
Qed.

Lemma proj_gs b cs r :
  b_sel b = passthrough (out_cols (b_sel b)) -> proj cs (b_sel b) r = proj cs (passthrough (out_cols (b_sel b))) r.
Proof. intro H. rewrite <- H. reflexivity. Qed.

Section G.
  Variable c : cfg.
  Hypothesis Hcfg : cfg_ok c = true.
  Hypothesis Hlim : limit_ok c.

  (** ** Body lemmas over a block with hidden source columns *)
  Lemma gbody_where b S e :
    GSimple b (cols S) -> wf_frame S -> NoDup (out_cols (b_sel b)) ->
    hfree (hid_cols (out_cols (b_sel b)) (cols S)) e = true ->
    eval_block (body c (OWhere e) b) S = spec_step (OWhere e) (eval_block b S).
  Proof.
    intros (Hs & Hi & Hd & Ho & Hl) Hwf Hnd Hf.
    rewrite (eval_gsimple b S) by assumption.
    rewrite (eval_gsimple (body c (OWhere e) b) S) by assumption.
    cbn [body set_where b_sel b_where spec_step cols rows]. f_equal.
    rewrite filter_app_conj. symmetry. apply filter_map_swap.
    intros r Hr. apply filter_In in Hr. destruct Hr as [Hr _].
    unfold holds. rewrite (proj_gs b _ r Hs). rewrite eval_proj_vis; auto.
  Qed.

  Lemma gbody_select b S items :
    GSimple b (cols S) -> wf_frame S -> NoDup (out_cols (b_sel b)) ->
    forallb (fun it => hfree (hid_cols (out_cols (b_sel b)) (cols S)) (fst it)) items = true ->
    eval_block (body c (OSelect items) b) S = spec_step (OSelect items) (eval_block b S).
  Proof.
    intros (Hs & Hi & Hd & Ho & Hl) Hwf Hnd Hf.
    rewrite (eval_gsimple b S) by assumption.
    rewrite (eval_gsimple (body c (OSelect items) b) S) by assumption.
    cbn [body set_sel b_sel b_where spec_step cols rows]. f_equal.
    rewrite map_map. apply map_ext_in.
    intros r Hr. apply filter_In in Hr. destruct Hr as [Hr _].
    unfold proj at 1 2. apply map_ext_in. intros it Hit.
    rewrite forallb_forall in Hf. specialize (Hf it Hit). symmetry.
    rewrite (proj_gs b _ r Hs). rewrite eval_proj_vis; auto.
  Qed.

  Lemma gbody_distinct b S :
    GSimple b (cols S) ->
    eval_block (body c ODistinct b) S = spec_step ODistinct (eval_block b S).
  Proof.
    intros (Hs & Hi & Hd & Ho & Hl).
    rewrite (eval_gsimple b S) by assumption.
    unfold eval_block. cbn [body set_distinct b_sel b_where b_distinct b_order b_limit spec_step cols rows].
    rewrite Ho, Hl. rewrite sort_on_nil_keys by reflexivity. f_equal.
    rewrite map_fst_dedup_on, map_fst_pairs. reflexivity.
  Qed.

  (** ** The generalised invariant *)
  Definition GInv (d : df) (ics : list string) : Prop :=
    (claim (last d) < 5 -> b_sel (cur d) = passthrough (out_cols (b_sel (cur d))) /\
                           incl (out_cols (b_sel (cur d))) (src_cols d ics) /\ b_distinct (cur d) = false) /\
    (claim (last d) < 6 -> b_order (cur d) = []) /\
    (claim (last d) < 7 -> b_limit (cur d) = None) /\
    NoDup (src_cols d ics) /\ NoDup (out_cols (b_sel (cur d))).
  Definition GInvR (d : df) (ics : list string) : Prop := GInv d ics /\ In (last d) (reach c).

  Lemma inv_ginv d ics : Inv d ics -> GInv d ics.
  Proof.
    intros (Ha & Hb & Hc & Hn1 & Hn2). unfold GInv. repeat split; auto;
      destruct (Ha H) as [Hs Hd]; auto; rewrite Hs, out_cols_passthrough; [reflexivity | apply incl_refl].
  Qed.
  Lemma invr_ginvr d ics : InvR c d ics -> GInvR d ics.
  Proof. intros [H Hr]. split; [apply inv_ginv; exact H | exact Hr]. Qed.

  Lemma ginv_wrap d ics k : NoDup (out_cols (b_sel (cur d))) -> GInv (set_last (wrap d) k) ics.
  Proof.
    intro Hnd. unfold GInv.
    change (src_cols (set_last (wrap d) k) ics) with (src_cols (wrap d) ics).
    rewrite (src_cols_wrap d ics).
    cbn [cur set_last wrap pass_block b_sel b_distinct b_order b_limit last].
    rewrite out_cols_passthrough. repeat split; auto. apply incl_refl.
  Qed.

  Definition GReady (n : opname) (d : df) (ics : list string) : Prop :=
    (crank n <= 5 -> GSimple (cur d) (src_cols d ics)) /\ (crank n = 6 -> b_limit (cur d) = None) /\
    NoDup (src_cols d ics) /\ NoDup (out_cols (b_sel (cur d))).

  Lemma gready_wrap d ics n k : NoDup (out_cols (b_sel (cur d))) -> GReady n (set_last (wrap d) k) ics.
  Proof.
    intro Hnd. unfold GReady, GSimple.
    change (src_cols (set_last (wrap d) k) ics) with (src_cols (wrap d) ics).
    rewrite (src_cols_wrap d ics).
    cbn [cur set_last wrap pass_block b_sel b_distinct b_order b_limit last].
    rewrite out_cols_passthrough. repeat split; auto. apply incl_refl.
  Qed.

  Lemma gpair_ok_of d ics n : GInvR d ics -> pair_ok c (last d) n = true.
  Proof.
    intros [_ Hr]. unfold cfg_ok in Hcfg. rewrite forallb_forall in Hcfg.
    specialize (Hcfg _ Hr). rewrite forallb_forall in Hcfg. apply Hcfg.
    destruct n; simpl; tauto.
  Qed.

  Lemma gpre_init d ics input :
    GInvR d ics -> GInvR (pre_init c d) ics /\ eval_df (pre_init c d) input = eval_df d input.
  Proof.
    intros [HI Hr]. unfold pre_init. destruct (opk_eqb (last d) INIT) eqn:Ei; [|split; [split|]; auto].
    assert (Hn : NoDup (out_cols (b_sel (cur d)))) by (destruct HI as (_&_&_&_&Hn); exact Hn).
    destruct (init_wraps c).
    - split; [split; [apply ginv_wrap; exact Hn | unfold reach; simpl; tauto]|].
      unfold eval_df; simpl. apply wrap_eval. exact Hn.
    - split; [|reflexivity]. split; [|unfold reach; simpl; tauto].
      destruct (last d) eqn:El; try discriminate.
      unfold GInv in *. cbn [set_last last cur]. rewrite El in HI. exact HI.
  Qed.

  Lemma pre_init_last d : opk_eqb (last (pre_init c d)) INIT = false.
  Proof.
    unfold pre_init. destruct (opk_eqb (last d) INIT) eqn:E; [reflexivity | exact E].
  Qed.
  Lemma pre_init_idem d : opk_eqb (last d) INIT = false -> pre_init c d = d.
  Proof. intro H. unfold pre_init. rewrite H. reflexivity. Qed.

  (** the wrap decision of operation [n] leaves a block its body can be written into *)
  Lemma gpre_wrap d0 ics input o :
    GInvR d0 ics ->
    GReady (name_of o) (pre_wrap c o d0) ics /\ eval_df (pre_wrap c o d0) input = eval_df d0 input.
  Proof.
    intros HI0. pose proof (gpair_ok_of d0 ics (name_of o) HI0) as Hp.
    unfold pair_ok in Hp. fold (new_kind c o (last d0)) in Hp.
    set (new := new_kind c o (last d0)) in *.
    apply andb_true_iff in Hp. destruct Hp as [_ Hp].
    unfold pre_wrap. fold new. destruct HI0 as [HI0 _].
    destruct HI0 as (Ha & Hb & Hc & Hn1 & Hn2).
    destruct (wrap_needed c (last d0) new) eqn:Ew.
    - split; [apply (gready_wrap d0 ics (name_of o) (last d0) Hn2)|].
      apply wrap_eval. exact Hn2.
    - simpl in Hp. apply andb_true_iff in Hp. destruct Hp as [Hle Hsel]. apply Z.leb_le in Hle.
      split; [|reflexivity]. unfold GReady, GSimple.
      split; [|split; [|tauto]].
      + intro H5.
        assert (claim (last d0) < 5).
        { apply orb_true_iff in Hsel. destruct Hsel as [Hsel|Hsel].
          - apply negb_true_iff, Z.eqb_neq in Hsel. lia.
          - apply Z.ltb_lt in Hsel; exact Hsel. }
        destruct Ha as (Ha1 & Ha2 & Ha3); [lia|]. rewrite Hb, Hc by lia. tauto.
      + intro H6. apply Hc. lia.
  Qed.

  (** ** Side condition: a where/select written into a block with hidden columns must not mention them *)
  Definition hidden_of (d : df) (ics : list string) : list string :=
    hid_cols (out_cols (b_sel (cur d))) (src_cols d ics).
  Definition hf_ok (d : df) (ics : list string) (o : op) : bool :=
    let d1 := pre_wrap c o (pre_init c d) in
    match o with
    | OWhere e => hfree (hidden_of d1 ics) e
    | OSelect items => forallb (fun it => hfree (hidden_of d1 ics) (fst it)) items
    | _ => true
    end.

  Ltac ginv_tac :=
    unfold GInv; refine (conj _ (conj _ (conj _ (conj _ _)))); simpl;
    [ intro; first [lia | repeat split; assumption]
    | intro; first [lia | assumption]
    | intro; first [lia | assumption]
    | assumption
    | try assumption ].

  (** ** One step, from a state that may have hidden columns *)
  Theorem gstep_correct d ics input o :
    cols input = ics -> wf_frame input -> GInvR d ics ->
    op_ok c d ics o = true -> hf_ok d ics o = true ->
    eval_df (step c d o) input = spec_step o (eval_df d input) /\ GInvR (step c d o) ics.
  Proof.
    intros Hics Hwf HI Hok Hhf.
    destruct (gpre_init d ics input HI) as [HI0 He0]. rewrite <- He0. clear He0.
    unfold op_ok in Hok. unfold hf_ok in Hhf. unfold step.
    set (d0 := pre_init c d) in *. clearbody d0. clear HI d.
    pose proof (gpair_ok_of d0 ics (name_of o) HI0) as Hp.
    unfold pair_ok in Hp. fold (new_kind c o (last d0)) in Hp.
    set (new := new_kind c o (last d0)) in *.
    apply andb_true_iff in Hp. destruct Hp as [Hnew _]. apply Z.leb_le in Hnew.
    destruct (gpre_wrap d0 ics input o HI0) as [HR He1]. rewrite <- He1. clear He1.
    assert (Hreach : In new (reach c)).
    { subst new. unfold new_kind. destruct (opk_eqb (kind_of c (name_of o)) NO_OP).
      - destruct HI0; assumption.
      - apply reach_kind. }
    set (d1 := pre_wrap c o d0) in *. clearbody d1.
    destruct HR as (HS & HL & Hn1 & Hn2).
    pose proof (cols_source d1 input) as Hcs. rewrite Hics in Hcs.
    pose proof (wf_source d1 input Hwf) as Hwfs.
    change (eval_df {| done := done d1; cur := body c o (cur d1); last := new |} input)
      with (eval_block (body c o (cur d1)) (source d1 input)).
    change (eval_df d1 input) with (eval_block (cur d1) (source d1 input)).
    unfold hidden_of in Hhf. rewrite <- Hcs in Hhf, HS.
    assert (Hsrc : src_cols {| done := done d1; cur := body c o (cur d1); last := new |} ics = src_cols d1 ics) by reflexivity.
    set (S := source d1 input) in *.
    destruct o as [items|e|ks|n|]; simpl in *.
    - (* select *)
      pose proof (HS ltac:(lia)) as HG. destruct HG as (Hs & Hi & Hd & Ho & Hl).
      split.
      + apply gbody_select; auto. unfold GSimple; tauto.
      + split; [|exact Hreach]. unfold GInv. cbn [cur last b_sel b_distinct b_order b_limit set_sel].
        rewrite Hsrc.
        refine (conj _ (conj _ (conj _ (conj _ _)))); try (intro; first [lia | assumption]); [exact Hn1|].
        apply nodupb_sound; exact Hok.
    - (* where *)
      pose proof (HS ltac:(lia)) as HG. destruct HG as (Hs & Hi & Hd & Ho & Hl).
      split.
      + apply gbody_where; auto. unfold GSimple; tauto.
      + split; [|exact Hreach]. unfold GInv. cbn [cur last b_sel b_distinct b_order b_limit set_where].
        rewrite Hsrc. rewrite Hcs in Hi.
        refine (conj _ (conj _ (conj _ (conj _ _)))); try (intro; first [lia | assumption]); [|exact Hn1|exact Hn2].
        intro. repeat split; assumption.
    - (* orderBy *)
      specialize (HL eq_refl).
      apply andb_true_iff in Hok. destruct Hok as [Hnil Hk].
      assert (Ho : b_order (cur d1) = []) by (destruct (b_order (cur d1)); [reflexivity|discriminate]).
      split.
      + apply (body_order c); auto.
        * rewrite Hcs; exact Hn1.
        * rewrite Hcs; exact Hk.
        * rewrite Hcs. apply is_simple_sound.
      + split; [|exact Hreach]. unfold GInv. cbn [cur last b_sel b_distinct b_order b_limit set_order].
        rewrite Hsrc.
        refine (conj _ (conj _ (conj _ (conj _ _)))); try (intro; first [lia | assumption]); [exact Hn1|exact Hn2].
    - (* limit *)
      split; [apply (body_limit c Hlim)|].
      split; [|exact Hreach]. unfold GInv. cbn [cur last b_sel b_distinct b_order b_limit set_limit].
      rewrite Hsrc.
      refine (conj _ (conj _ (conj _ (conj _ _)))); try (intro; first [lia | assumption]); [exact Hn1|exact Hn2].
    - (* distinct *)
      pose proof (HS ltac:(lia)) as HG.
      split.
      + apply gbody_distinct; auto.
      + destruct HG as (Hs & Hi & Hd & Ho & Hl).
        split; [|exact Hreach]. unfold GInv. cbn [cur last b_sel b_distinct b_order b_limit set_distinct].
        rewrite Hsrc.
        refine (conj _ (conj _ (conj _ (conj _ _)))); try (intro; first [lia | assumption]); [exact Hn1|exact Hn2].
  Qed.
End G.
