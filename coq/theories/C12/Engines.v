(** C12 -- the same pipeline means the same thing on every supported engine (PROVED FRAGMENT).

    No executable model of BigQuery / Snowflake / Postgres / Databricks / Spark / Redshift exists offline,
    so what Coq carries is what sqlframe itself is responsible for:

    (A) ENGINE INDEPENDENCE OF THE RELATIONAL CORE.  The C01 compiler ([Model.Chain.compile]) takes the
        engine only through (i) the clause configuration [cfg], which an engine could change only by
        overriding a clause method / the operation decorator in its DataFrame or GroupedData class, and
        (ii) column names (BigQuery sanitises generated names).  [compile_natural]: compilation commutes
        with ANY renaming of columns; [core_engine_independent]: if no engine package overrides a core
        method (a decidable condition on the per-engine facts regenerated from /repo), the compiled chains
        of all engines are equal up to names, and each evaluates to the sequential meaning (C01).
    (B) DIALECT PLUMBING.  A small state machine of the action methods (collect, count, show, toPandas,
        saveAsTable, ...) over the session-level sinks (_collect, _fetchdf, _execute, _to_sql), all call
        sites regenerated from /repo: every statement that reaches the cursor is rendered into the
        session's EXECUTION dialect, [df.sql(dialect=X)] renders into X, and result column names are
        re-normalised execution -> output.  For all sessions (dialect triples) and all action sequences.
    (C) PER-ENGINE FUNCTION DISPATCH ([get_func_from_session]) over the finite function table regenerated
        from base/functions.py: total on what the engine's module exports, and the [_is_<engine>] flag
        vector of every session class is one-hot at its own engine (so every `if session._is_x` chain
        takes a determined branch).

    Everything here is parametric in the generated facts; props/C12.v instantiates. *)
From SF Require Export Model.Chain Model.ChainProof.
From Coq Require Import Ascii.
Open Scope string_scope.
Open Scope list_scope.

(* ------------------------------------------------------------------------------------------------ *)
(** * Engines *)

Inductive engine := Bigquery | Snowflake | Postgres | Databricks | Spark | Redshift | Duckdb | Standalone.
Definition all_engines := [Bigquery; Snowflake; Postgres; Databricks; Spark; Redshift; Duckdb; Standalone].
(** the engines the property quantifies over (Standalone has no connection) *)
Definition property_engines := [Bigquery; Snowflake; Postgres; Databricks; Spark; Redshift; Duckdb].

Definition engine_eqb (a b : engine) : bool :=
  match a, b with
  | Bigquery, Bigquery | Snowflake, Snowflake | Postgres, Postgres | Databricks, Databricks
  | Spark, Spark | Redshift, Redshift | Duckdb, Duckdb | Standalone, Standalone => true
  | _, _ => false
  end.
Lemma engine_eqb_eq a b : engine_eqb a b = true <-> a = b.
Proof. destruct a, b; simpl; split; intro H; try discriminate; reflexivity. Qed.
Lemma all_engines_complete E : In E all_engines.
Proof. destruct E; simpl; tauto. Qed.

(** the package directory / sqlglot registry key of an engine *)
Definition engine_name (E : engine) : string :=
  match E with
  | Bigquery => "bigquery" | Snowflake => "snowflake" | Postgres => "postgres" | Databricks => "databricks"
  | Spark => "spark" | Redshift => "redshift" | Duckdb => "duckdb" | Standalone => "standalone"
  end.
Definition engine_of_name (s : string) : option engine :=
  find (fun E => String.eqb (engine_name E) s) all_engines.

Fixpoint assoc {A B} (eqb : A -> A -> bool) (k : A) (l : list (A * B)) : option B :=
  match l with
  | [] => None
  | (k', v) :: l' => if eqb k k' then Some v else assoc eqb k l'
  end.
Definition sassoc {B} := @assoc string B String.eqb.
Definition disjointb (a b : list string) : bool := forallb (fun x => negb (mem x b)) a.

(* ------------------------------------------------------------------------------------------------ *)
(** * (A) Renaming and engine independence of the compiler *)

Section Rename.
  Variable f : string -> string.

  Fixpoint ren_expr (e : expr) : expr :=
    match e with
    | ECol n => ECol (f n)
    | ELit v => ELit v
    | EBin o a b => EBin o (ren_expr a) (ren_expr b)
    | ENot a => ENot (ren_expr a)
    | ENeg a => ENeg (ren_expr a)
    | EIsNull a => EIsNull (ren_expr a)
    | EIf c t e' => EIf (ren_expr c) (ren_expr t) (ren_expr e')
    | ECoalesce a b => ECoalesce (ren_expr a) (ren_expr b)
    end.
  Definition ren_key (k : okey) : okey := mkKey (ren_expr (k_e k)) (k_desc k) (k_nf k).
  Definition ren_item (p : expr * string) : expr * string := (ren_expr (fst p), f (snd p)).
  Definition ren_block (b : block) : block :=
    mkBlock (map ren_expr (b_where b)) (map ren_item (b_sel b)) (b_distinct b)
            (map ren_key (b_order b)) (b_limit b).
  Definition ren_op (o : op) : op :=
    match o with
    | OSelect items => OSelect (map ren_item items)
    | OWhere e => OWhere (ren_expr e)
    | OOrderBy ks => OOrderBy (map ren_key ks)
    | OLimit n => OLimit n
    | ODistinct => ODistinct
    end.
  Definition ren_df (d : df) : df := mkDf (map ren_block (done d)) (ren_block (cur d)) (last d).

  Lemma ren_out_cols s : out_cols (map ren_item s) = map f (out_cols s).
  Proof. unfold out_cols. rewrite !map_map. reflexivity. Qed.
  Lemma ren_passthrough cs : map ren_item (passthrough cs) = passthrough (map f cs).
  Proof. unfold passthrough. rewrite !map_map. reflexivity. Qed.
  Lemma ren_pass_block cs : ren_block (pass_block cs) = pass_block (map f cs).
  Proof. unfold ren_block, pass_block; simpl. rewrite ren_passthrough. reflexivity. Qed.
  Lemma ren_name_of o : name_of (ren_op o) = name_of o.
  Proof. destruct o; reflexivity. Qed.
  Lemma ren_wrap d : ren_df (wrap d) = wrap (ren_df d).
  Proof.
    unfold wrap, ren_df; simpl. rewrite map_app; simpl.
    rewrite ren_pass_block, ren_out_cols. reflexivity.
  Qed.
  Lemma ren_set_last d k : ren_df (set_last d k) = set_last (ren_df d) k.
  Proof. reflexivity. Qed.

  Variable c : cfg.

  Lemma ren_pre_init d : ren_df (pre_init c d) = pre_init c (ren_df d).
  Proof.
    unfold pre_init. change (last (ren_df d)) with (last d).
    destruct (opk_eqb (last d) INIT); [|reflexivity].
    destruct (init_wraps c); rewrite ren_set_last; [rewrite ren_wrap|]; reflexivity.
  Qed.
  Lemma ren_pre_wrap o d : ren_df (pre_wrap c o d) = pre_wrap c (ren_op o) (ren_df d).
  Proof.
    unfold pre_wrap, new_kind. rewrite ren_name_of. change (last (ren_df d)) with (last d).
    destruct (wrap_needed c (last d) _); [apply ren_wrap | reflexivity].
  Qed.
  Lemma ren_body o b : ren_block (body c o b) = body c (ren_op o) (ren_block b).
  Proof.
    destruct o; unfold body, ren_block; simpl; try reflexivity.
    - rewrite map_app. reflexivity.
    - destruct (order_append c); [rewrite map_app|]; reflexivity.
  Qed.
  Lemma ren_step d o : ren_df (step c d o) = step c (ren_df d) (ren_op o).
  Proof.
    unfold step. rewrite <- ren_pre_init, <- ren_pre_wrap.
    unfold ren_df at 1; simpl. rewrite ren_body. unfold new_kind. rewrite ren_name_of. reflexivity.
  Qed.

  (** compilation is natural in column names: for EVERY renaming, every cfg, every operation list *)
  Theorem compile_natural ops : forall d,
    ren_df (compile c ops d) = compile c (map ren_op ops) (ren_df d).
  Proof.
    induction ops as [|o ops IH]; intro d; simpl; [reflexivity|].
    unfold compile in *; simpl. rewrite IH, ren_step. reflexivity.
  Qed.
End Rename.

Lemma ren_expr_comp f g e : ren_expr g (ren_expr f e) = ren_expr (fun n => g (f n)) e.
Proof. induction e; simpl; congruence. Qed.
Lemma ren_block_comp f g b : ren_block g (ren_block f b) = ren_block (fun n => g (f n)) b.
Proof.
  unfold ren_block; simpl. rewrite !map_map. f_equal.
  - apply map_ext. intro; apply ren_expr_comp.
  - apply map_ext. intros [e n]; unfold ren_item; simpl. rewrite ren_expr_comp. reflexivity.
  - apply map_ext. intros [e d n]; unfold ren_key; simpl. rewrite ren_expr_comp. reflexivity.
Qed.
Lemma ren_df_comp f g d : ren_df g (ren_df f d) = ren_df (fun n => g (f n)) d.
Proof.
  unfold ren_df; simpl. rewrite map_map, ren_block_comp. f_equal.
  apply map_ext. intro; apply ren_block_comp.
Qed.

(** forgetting every column name *)
Definition erase_names : df -> df := ren_df (fun _ => "").

(** ** per-engine facts (regenerated from sqlframe/<engine>/{session,dataframe,group}.py) *)
Record efacts := mkEfacts {
  ef_flags : list (string * bool);     (* `_is_<x>` properties the session class defines, with the constant they return *)
  ef_sanitize : option bool;           (* SANITIZE_COLUMN_NAMES assigned in the class body *)
  ef_in : option string;               (* Builder.DEFAULT_INPUT_DIALECT / OUTPUT / EXECUTION assigned in the class's Builder *)
  ef_out : option string;
  ef_exec : option string;
  ef_session_defs : list string;       (* every method/property the session class defines *)
  ef_df_defs : list string;            (* names defined by the engine's DataFrame class and every mixin before BaseDataFrame in its MRO *)
  ef_group_defs : list string;         (* names defined by the engine's GroupedData class *)
  ef_rebinds : list string }.          (* engine-package modules that mention operation / group_operation / Operation *)

Record bfacts := mkBfacts {            (* _BaseSession and _BaseSession.Builder *)
  bf_flags : list (string * bool);
  bf_sanitize : bool;
  bf_in : string; bf_out : string; bf_exec : string;
  bf_wiring : list (string * string);  (* __init__: session attribute <- Builder constant it is read from *)
  bf_sanitize_pairs : list (ascii * ascii) }.   (* the .replace(a, b) chain of _sanitize_column_name *)

Definition flag_name (E : engine) : string := ("_is_" ++ engine_name E)%string.

Section Resolve.
  Variable B : bfacts.
  Variable T : engine -> efacts.

  (** attribute lookup along the MRO  <Engine>Session -> _BaseSession *)
  Definition flag (E X : engine) : bool :=
    match sassoc (flag_name X) (ef_flags (T E)) with
    | Some b => b
    | None => match sassoc (flag_name X) (bf_flags B) with Some b => b | None => false end
    end.
  Definition sanitize_on (E : engine) : bool :=
    match ef_sanitize (T E) with Some b => b | None => bf_sanitize B end.
  Definition dflt (o : option string) (d : string) := match o with Some x => x | None => d end.
  Definition in_default (E : engine) := dflt (ef_in (T E)) (bf_in B).
  Definition out_default (E : engine) := dflt (ef_out (T E)) (bf_out B).
  Definition exec_default (E : engine) := dflt (ef_exec (T E)) (bf_exec B).

  Fixpoint replace_char (a b : ascii) (s : string) : string :=
    match s with
    | EmptyString => EmptyString
    | String c s' => String (if Ascii.eqb c a then b else c) (replace_char a b s')
    end.
  Definition sanitize (s : string) : string :=
    fold_left (fun acc p => replace_char (fst p) (snd p) acc) (bf_sanitize_pairs B) s.
  (** the column-name function of an engine: what `_sanitize_column_name` does on that session class *)
  Definition nm (E : engine) : string -> string := if sanitize_on E then sanitize else (fun s => s).

  (** an engine takes the base clause configuration unless its package overrides a core method *)
  Variable core_df : list string.      (* clause methods (every @operation-decorated method) + the CTE helpers *)
  Variable core_group : list string.
  Definition engine_core_ok (E : engine) : bool :=
    disjointb (ef_df_defs (T E)) core_df && disjointb (ef_group_defs (T E)) core_group
    && match ef_rebinds (T E) with [] => true | _ => false end.
  Definition engines_ok : bool := forallb engine_core_ok all_engines.

  Variable base : cfg.
  Definition cfg_of (E : engine) : option cfg := if engine_core_ok E then Some base else None.

  Lemma cfg_of_some E : engines_ok = true -> cfg_of E = Some base.
  Proof.
    intro H. unfold engines_ok in H. rewrite forallb_forall in H.
    unfold cfg_of. rewrite (H E (all_engines_complete E)). reflexivity.
  Qed.

  (** the program and the input columns as engine E names them *)
  Definition view_ops (E : engine) (ops : list op) := map (ren_op (nm E)) ops.
  Definition view_cols (E : engine) (ics : list string) := map (nm E) ics.

  Theorem core_engine_independent :
    engines_ok = true ->
    forall E ops ics, exists cE cD,
      cfg_of E = Some cE /\ cfg_of Duckdb = Some cD /\
      erase_names (compile cE (view_ops E ops) (init_df (view_cols E ics)))
      = erase_names (compile cD (view_ops Duckdb ops) (init_df (view_cols Duckdb ics))).
  Proof.
    intros Hok E ops ics. exists base, base.
    split; [apply cfg_of_some; exact Hok|]. split; [apply cfg_of_some; exact Hok|].
    assert (Hview : forall X, compile base (view_ops X ops) (init_df (view_cols X ics))
                              = ren_df (nm X) (compile base ops (init_df ics))).
    { intro X. rewrite compile_natural. unfold view_ops, view_cols. f_equal.
      unfold init_df, ren_df; simpl. rewrite ren_pass_block. reflexivity. }
    rewrite !Hview. unfold erase_names. rewrite !ren_df_comp. reflexivity.
  Qed.

  (** and every engine's chain denotes the sequential meaning (C01's theorem, for that engine's cfg) *)
  Theorem core_engine_semantics :
    engines_ok = true -> cfg_ok base = true -> limit_ok base ->
    forall E ops input, wf_frame input -> NoDup (cols input) ->
      ops_ok base (init_df (cols input)) (cols input) ops = true ->
      exists cE, cfg_of E = Some cE /\
        eval_df (compile cE ops (init_df (cols input))) input = spec_run ops input.
  Proof.
    intros Hok Hcfg Hlim E ops input Hwf Hnd Hops. exists base. split; [apply cfg_of_some; exact Hok|].
    apply (chain_from_input base Hcfg Hlim); assumption.
  Qed.

  (** ** session-class facts every engine must satisfy (decidable) *)
  (** one-hot flags: on the session class of engine E, `_is_<X>` is true exactly for X = E *)
  Definition flags_one_hot : bool :=
    forallb (fun E => forallb (fun X => Bool.eqb (flag E X) (engine_eqb E X)) all_engines) all_engines.
  (** the default execution dialect of every engine with a connection names that engine; input and output
      dialects are the same on every engine (so the tree a program builds does not depend on the engine) *)
  Definition dialect_defaults_ok : bool :=
    forallb (fun E => String.eqb (exec_default E) (engine_name E)) property_engines
    && forallb (fun E => String.eqb (in_default E) (in_default Duckdb)
                         && String.eqb (out_default E) (out_default Duckdb)) all_engines.
  (** __init__ wires each session dialect attribute to the Builder constant of the same role *)
  Definition wiring_ok : bool :=
    match sassoc "input_dialect" (bf_wiring B), sassoc "output_dialect" (bf_wiring B),
          sassoc "execution_dialect" (bf_wiring B) with
    | Some i, Some o, Some e =>
        String.eqb i "DEFAULT_INPUT_DIALECT" && String.eqb o "DEFAULT_OUTPUT_DIALECT"
        && String.eqb e "DEFAULT_EXECUTION_DIALECT"
    | _, _, _ => false
    end.

  (** the documented-sanitising table: exactly the engines in [documented] rewrite generated column names
      (BigQuery cannot carry parentheses in a column name); every other engine keeps the names the DuckDB
      session produces *)
  Definition sanitising_ok (documented : list engine) : bool :=
    forallb (fun E => Bool.eqb (sanitize_on E) (existsb (engine_eqb E) documented)) all_engines.
  Lemma sanitising_spec documented :
    sanitising_ok documented = true ->
    forall E, existsb (engine_eqb E) documented = false -> forall n, nm E n = n.
  Proof.
    intros H E HE n. unfold sanitising_ok in H. rewrite forallb_forall in H.
    specialize (H E (all_engines_complete E)). apply Bool.eqb_prop in H.
    unfold nm. rewrite H, HE. reflexivity.
  Qed.

  Lemma flags_one_hot_spec : flags_one_hot = true -> forall E X, flag E X = true <-> X = E.
  Proof.
    intros H E X. unfold flags_one_hot in H. rewrite forallb_forall in H.
    specialize (H E (all_engines_complete E)). rewrite forallb_forall in H.
    specialize (H X (all_engines_complete X)). apply Bool.eqb_prop in H. rewrite H.
    rewrite engine_eqb_eq. split; congruence.
  Qed.
End Resolve.

(** sanitising never leaves a replaced character behind when the replacement is not itself replaced *)
Lemma replace_char_absent a b s : a <> b -> ~ In a (list_ascii_of_string (replace_char a b s)).
Proof.
  intros Hab. induction s as [|c s IH]; simpl; [tauto|].
  intros [H|H]; [|tauto].
  destruct (Ascii.eqb c a) eqn:E; [congruence|]. apply Ascii.eqb_neq in E. congruence.
Qed.

(* ------------------------------------------------------------------------------------------------ *)
(** * (B) Dialect plumbing *)

(** dialect-valued expressions as they occur in the source *)
Inductive dexp :=
| DArg                      (* the `dialect` parameter of the enclosing method *)
| DNone                     (* no dialect given *)
| DIn | DOut | DExec        (* self.input_dialect / self.output_dialect / self.execution_dialect *)
| DConst (s : string)
| DOr (a b : dexp)          (* a or b *)
| DIfArg (a b : dexp).      (* a if dialect else b *)

(** how a session-level sink turns its argument into the text handed to the cursor *)
Inductive rnd :=
| RRaw                      (* the argument (a string) is passed on unchanged *)
| RToSql (d : dexp)         (* self._to_sql(x, dialect=d) *)
| RExprSql (d : dexp)       (* x.sql(dialect=d) *)
| RIfTree (a b : rnd)       (* a if isinstance(x, exp.Expression) else b *)
| RIfSkip (a b : rnd).      (* a if skip_normalization else b *)

Inductive argk := ATrees | ATree | AStr.
Inductive sinkk := KCollect (skip_norm : bool) | KFetchdf | KExecute.
Inductive call :=
| CAct (name : string)            (* another modelled action of a DataFrame / writer *)
| CDfSql (d : dexp)               (* df.sql(dialect=d): text, not executed here *)
| CToSql (d : dexp)               (* session._to_sql(tree, dialect=d): text, not executed here *)
| CSink (k : sinkk) (a : argk).   (* session._collect / _fetchdf / _execute *)

Inductive impl := IOwn (sites : list rnd) | ISuper.    (* an engine's override: own body, or delegates to super() *)

Record pfacts := mkPfacts {
  pf_to_sql_from : dexp;                          (* _to_sql: normalize_string(from_dialect= *)
  pf_to_sql_to : dexp;                            (*                           to_dialect=   *)
  pf_norm_render : dexp;                          (* normalize_string: .sql(dialect=<to_dialect>) -- DArg when it is the to_dialect parameter *)
  pf_dfsql : dexp;                                (* df.sql: the dialect handed to _to_sql *)
  pf_str_to_dialect : list (string * dexp);       (* normalize_string's "input"/"output"/"execution" table *)
  pf_collect : list rnd;                          (* _BaseSession._collect: argument of each _execute site *)
  pf_fetchdf : list rnd;                          (* _BaseSession._fetchdf: argument of each _execute / read_sql_query site *)
  pf_names : dexp * string * string;              (* _collect: parse_identifier(dialect=), normalize_string(from_dialect=, to_dialect=) *)
  pf_collect_of : engine -> option impl;          (* engine override of _collect *)
  pf_fetchdf_of : engine -> option impl;
  pf_names_of : engine -> option (dexp * string * string);
  pf_actions : engine -> list (string * list call) }.   (* action summaries, resolved over the engine's MRO *)

Record sess := mkSess { s_in : string; s_out : string; s_exec : string }.

(** concrete evaluation in a session *)
Fixpoint deval (s : sess) (arg : option string) (d : dexp) : option string :=
  match d with
  | DArg => arg
  | DNone => None
  | DIn => Some (s_in s) | DOut => Some (s_out s) | DExec => Some (s_exec s)
  | DConst c => Some c
  | DOr a b => match deval s arg a with Some x => Some x | None => deval s arg b end
  | DIfArg a b => match arg with Some _ => deval s arg a | None => deval s arg b end
  end.

(** symbolic evaluation (independent of the session); [VUser] stands for a dialect the caller passed *)
Inductive aval := VIn | VOut | VExec | VConst (c : string) | VUser.
Definition conc (s : sess) (u : string) (v : aval) : string :=
  match v with VIn => s_in s | VOut => s_out s | VExec => s_exec s | VConst c => c | VUser => u end.
Fixpoint aeval (arg : option aval) (d : dexp) : option aval :=
  match d with
  | DArg => arg
  | DNone => None
  | DIn => Some VIn | DOut => Some VOut | DExec => Some VExec
  | DConst c => Some (VConst c)
  | DOr a b => match aeval arg a with Some x => Some x | None => aeval arg b end
  | DIfArg a b => match arg with Some _ => aeval arg a | None => aeval arg b end
  end.
Lemma aeval_sound s u arg d : deval s (option_map (conc s u) arg) d = option_map (conc s u) (aeval arg d).
Proof.
  induction d; simpl; try reflexivity.
  - rewrite IHd1. destruct (aeval arg d1); simpl; [reflexivity | exact IHd2].
  - destruct arg; simpl; assumption.
Qed.

(** a statement handed to the cursor, abstracted to the dialects its rendered pieces were rendered into
    (one piece for a fully rendered tree; the embedded renders for a hand-built string) *)
Definition stmt (V : Type) := list (option V).

Section Run.
  Variable F : pfacts.
  Variable E : engine.
  Variable V : Type.
  Variable ev : option V -> dexp -> option V.

  Definition to_sql_v (a : option V) : option V := ev a (pf_to_sql_to F).      (* _to_sql(x, dialect=a) renders into *)
  Definition df_sql_a (a : option V) : option V := to_sql_v (ev a (pf_dfsql F)).   (* df.sql(dialect=a) renders into *)
  Definition df_sql_v (d : dexp) : option V := df_sql_a (ev None d).

  Fixpoint leaf (is_tree skip : bool) (r : rnd) : option (option V) :=
    match r with
    | RRaw => None
    | RToSql d => Some (to_sql_v (ev None d))
    | RExprSql d => Some (ev None d)
    | RIfTree a b => if is_tree then leaf is_tree skip a else leaf is_tree skip b
    | RIfSkip a b => if skip then leaf is_tree skip a else leaf is_tree skip b
    end.

  Definition sites_of (own : option impl) (base : list rnd) : list rnd :=
    match own with Some (IOwn l) => l | Some ISuper | None => base end.
  Definition collect_sites := sites_of (pf_collect_of F E) (pf_collect F).
  Definition fetchdf_sites := sites_of (pf_fetchdf_of F E) (pf_fetchdf F).

  (** dialects of the text fragments rendered inside one method (they are what a hand-built string embeds) *)
  Definition embedded (cs : list call) : stmt V :=
    flat_map (fun c => match c with
                       | CDfSql d => [df_sql_v d]
                       | CToSql d => [to_sql_v (ev None d)]
                       | _ => [] end) cs.

  Definition emit (emb : stmt V) (k : sinkk) (a : argk) : list (stmt V) :=
    let is_tree := match a with AStr => false | _ => true end in
    let sites := match k with KCollect _ => collect_sites | KFetchdf => fetchdf_sites | KExecute => [RRaw] end in
    let skip := match k with KCollect b => b | _ => false end in
    map (fun r => match leaf is_tree skip r with Some v => [v] | None => emb end) sites.

  Definition step_call (rec : string -> option (list (stmt V))) (emb : stmt V)
             (acc : option (list (stmt V))) (c : call) : option (list (stmt V)) :=
    match acc with
    | None => None
    | Some l =>
        match c with
        | CAct n => option_map (app l) (rec n)
        | CSink k a => Some (l ++ emit emb k a)
        | _ => Some l
        end
    end.

  Fixpoint run_act (fuel : nat) (name : string) : option (list (stmt V)) :=
    match fuel with
    | O => None
    | S fuel' =>
        match sassoc name (pf_actions F E) with
        | None => None
        | Some cs => fold_left (step_call (run_act fuel') (embedded cs)) cs (Some [])
        end
    end.

  Fixpoint run_seq (fuel : nat) (acts : list string) : option (list (stmt V)) :=
    match acts with
    | [] => Some []
    | a :: acts' => match run_act fuel a, run_seq fuel acts' with
                    | Some x, Some y => Some (x ++ y)
                    | _, _ => None
                    end
    end.
End Run.

Definition amap (s : sess) (u : string) : list (stmt aval) -> list (stmt string) :=
  map (map (option_map (conc s u))).

Section RunSound.
  Variable F : pfacts.
  Variable E : engine.
  Variable s : sess.
  Variable u : string.
  Let cev := deval s.
  Let cc := conc s u.

  Lemma to_sql_v_map a : to_sql_v F string cev (option_map cc a) = option_map cc (to_sql_v F aval aeval a).
  Proof. apply aeval_sound. Qed.
  Lemma ev_none d : cev None d = option_map cc (aeval None d).
  Proof. apply (aeval_sound s u None d). Qed.
  Lemma df_sql_a_map a : df_sql_a F string cev (option_map cc a) = option_map cc (df_sql_a F aval aeval a).
  Proof. unfold df_sql_a, cev, cc. rewrite aeval_sound. apply to_sql_v_map. Qed.
  Lemma df_sql_v_map d : df_sql_v F string cev d = option_map cc (df_sql_v F aval aeval d).
  Proof. unfold df_sql_v. rewrite ev_none. apply df_sql_a_map. Qed.
  Lemma leaf_map t k r :
    leaf F string cev t k r = option_map (option_map cc) (leaf F aval aeval t k r).
  Proof.
    induction r; simpl; try reflexivity.
    - rewrite ev_none, to_sql_v_map. reflexivity.
    - rewrite ev_none. reflexivity.
    - destruct t; assumption.
    - destruct k; assumption.
  Qed.
  Lemma embedded_map cs :
    embedded F string cev cs = map (option_map cc) (embedded F aval aeval cs).
  Proof.
    unfold embedded. induction cs as [|c cs IH]; simpl; [reflexivity|].
    rewrite map_app, IH. f_equal. destruct c; simpl; try reflexivity.
    - rewrite df_sql_v_map. reflexivity.
    - rewrite ev_none, to_sql_v_map. reflexivity.
  Qed.
  Lemma emit_map emb k a :
    emit F E string cev (map (option_map cc) emb) k a = amap s u (emit F E aval aeval emb k a).
  Proof.
    unfold emit, amap. rewrite map_map. apply map_ext. intro r.
    rewrite leaf_map. destruct (leaf F aval aeval _ _ r); reflexivity.
  Qed.

  Lemma fold_step_map rec1 rec2 emb :
    (forall n, rec1 n = option_map (amap s u) (rec2 n)) ->
    forall l a2,
      fold_left (step_call F E string cev rec1 (map (option_map cc) emb)) l (option_map (amap s u) a2)
      = option_map (amap s u) (fold_left (step_call F E aval aeval rec2 emb) l a2).
  Proof.
    intros Hrec. induction l as [|c l IHl]; intro a2; simpl; [reflexivity|].
    rewrite <- IHl. f_equal.
    destruct a2 as [l0|]; simpl; [|reflexivity].
    destruct c; simpl; try reflexivity.
    - rewrite Hrec. destruct (rec2 name); simpl; [|reflexivity].
      unfold amap. rewrite map_app. reflexivity.
    - rewrite emit_map. unfold amap. rewrite map_app. reflexivity.
  Qed.

  Lemma run_act_map fuel : forall name,
    run_act F E string cev fuel name = option_map (amap s u) (run_act F E aval aeval fuel name).
  Proof.
    induction fuel as [|fuel IH]; intro name; simpl; [reflexivity|].
    destruct (sassoc name (pf_actions F E)) as [cs|]; [|reflexivity].
    rewrite embedded_map.
    exact (fold_step_map _ _ _ IH cs (Some [])).
  Qed.

  Lemma run_seq_map fuel acts :
    run_seq F E string cev fuel acts = option_map (amap s u) (run_seq F E aval aeval fuel acts).
  Proof.
    induction acts as [|a acts IH]; simpl; [reflexivity|].
    rewrite run_act_map, IH.
    destruct (run_act F E aval aeval fuel a); simpl; [|reflexivity].
    destruct (run_seq F E aval aeval fuel acts); simpl; [|reflexivity].
    unfold amap. rewrite map_app. reflexivity.
  Qed.
End RunSound.

(** a statement is "in the execution dialect" when every rendered piece of it was rendered into it *)
Definition stmt_in_exec (s : sess) (st : stmt string) : Prop := forall v, In v st -> v = Some (s_exec s).
Definition astmt_ok (st : stmt aval) : bool :=
  forallb (fun v => match v with Some VExec => true | _ => false end) st.

Definition action_names (F : pfacts) (E : engine) : list string := map fst (pf_actions F E).

(** the decidable side condition: symbolically, every action of every engine terminates within [fuel]
    nested calls and emits only statements rendered into VExec *)
Definition plumbing_ok (F : pfacts) (fuel : nat) : bool :=
  forallb (fun E => forallb (fun a => match run_act F E aval aeval fuel a with
                                      | Some sts => forallb astmt_ok sts
                                      | None => false end) (action_names F E)) all_engines.

Lemma astmt_ok_sound s u st : astmt_ok st = true -> stmt_in_exec s (map (option_map (conc s u)) st).
Proof.
  unfold astmt_ok, stmt_in_exec. rewrite forallb_forall. intros H v Hv.
  apply in_map_iff in Hv. destruct Hv as [a [<- Ha]]. specialize (H a Ha).
  destruct a as [[]|]; try discriminate. reflexivity.
Qed.

Theorem every_statement_in_execution_dialect F fuel :
  plumbing_ok F fuel = true ->
  forall E (s : sess) (acts : list string),
    (forall a, In a acts -> In a (action_names F E)) ->
    exists sts, run_seq F E string (deval s) fuel acts = Some sts /\ Forall (stmt_in_exec s) sts.
Proof.
  intros Hok E s acts. unfold plumbing_ok in Hok. rewrite forallb_forall in Hok.
  specialize (Hok E (all_engines_complete E)). rewrite forallb_forall in Hok.
  induction acts as [|a acts IH]; intro Hin.
  - exists []. split; [reflexivity | constructor].
  - destruct IH as [sts2 [H2 F2]]; [intros; apply Hin; right; assumption|].
    specialize (Hok a (Hin a (or_introl eq_refl))).
    simpl. rewrite (run_act_map F E s ""). rewrite H2.
    destruct (run_act F E aval aeval fuel a) as [asts|]; [|discriminate]. simpl.
    eexists. split; [reflexivity|].
    apply Forall_app. split; [|exact F2].
    rewrite forallb_forall in Hok. apply Forall_forall. intros st Hst.
    unfold amap in Hst. apply in_map_iff in Hst. destruct Hst as [ast [<- Hast]].
    apply astmt_ok_sound. apply Hok. exact Hast.
Qed.

(** df.sql(dialect=X) renders into X on every session; df.sql() renders into the OUTPUT dialect;
    _to_sql reads the tree in the INPUT dialect; normalize_string renders with its to_dialect *)
Definition dfsql_ok (F : pfacts) : bool :=
  match df_sql_a F aval aeval (Some VUser), df_sql_a F aval aeval None, aeval None (pf_to_sql_from F) with
  | Some VUser, Some VOut, Some VIn => true
  | _, _, _ => false
  end
  && match pf_norm_render F with DArg => true | _ => false end.

Theorem df_sql_in_requested_dialect F :
  dfsql_ok F = true -> forall (s : sess) (x : string),
    df_sql_a F string (deval s) (Some x) = Some x /\
    df_sql_a F string (deval s) None = Some (s_out s) /\
    deval s None (pf_to_sql_from F) = Some (s_in s).
Proof.
  unfold dfsql_ok. intros H s x. apply andb_true_iff in H. destruct H as [H _].
  destruct (df_sql_a F aval aeval (Some VUser)) as [[]|] eqn:E1; try discriminate.
  destruct (df_sql_a F aval aeval None) as [[]|] eqn:E2; try discriminate.
  destruct (aeval None (pf_to_sql_from F)) as [[]|] eqn:E3; try discriminate.
  split; [|split].
  - change (Some x) with (option_map (conc s x) (Some VUser)) at 1.
    rewrite (df_sql_a_map F s x). rewrite E1. reflexivity.
  - change (@None string) with (option_map (conc s x) None) at 1.
    rewrite (df_sql_a_map F s x). rewrite E2. reflexivity.
  - change (@None string) with (option_map (conc s x) None) at 1.
    rewrite aeval_sound, E3. reflexivity.
Qed.

(** time formats: a Spark pattern given by the user is READ in the input dialect (format_time, default_time_format,
    and the inner read of format_execution_time) and WRITTEN for the execution dialect (format_execution_time's
    generator and its default) -- on every session *)
Definition time_reads := ["default_time_format:TIME_FORMAT"; "format_time:format_time"; "format_execution_time:format_time"].
Definition time_writes := ["format_execution_time:TIME_FORMAT"; "format_execution_time:generator"].
Definition time_ok (tf : list (string * dexp)) : bool :=
  forallb (fun k => match sassoc k tf with Some d => match aeval None d with Some VIn => true | _ => false end | None => false end) time_reads
  && forallb (fun k => match sassoc k tf with Some d => match aeval None d with Some VExec => true | _ => false end | None => false end) time_writes.
Theorem time_formats_in_right_dialect tf :
  time_ok tf = true -> forall s,
    (forall k, In k time_reads -> exists d, sassoc k tf = Some d /\ deval s None d = Some (s_in s)) /\
    (forall k, In k time_writes -> exists d, sassoc k tf = Some d /\ deval s None d = Some (s_exec s)).
Proof.
  unfold time_ok. intros H s. apply andb_true_iff in H. destruct H as [H1 H2].
  rewrite forallb_forall in H1, H2. split; intros k Hk.
  - specialize (H1 k Hk). destruct (sassoc k tf) as [d|]; [|discriminate]. exists d. split; [reflexivity|].
    change (@None string) with (option_map (conc s "") None). rewrite aeval_sound.
    destruct (aeval None d) as [[]|]; try discriminate. reflexivity.
  - specialize (H2 k Hk). destruct (sassoc k tf) as [d|]; [|discriminate]. exists d. split; [reflexivity|].
    change (@None string) with (option_map (conc s "") None). rewrite aeval_sound.
    destruct (aeval None d) as [[]|]; try discriminate. reflexivity.
Qed.

(** result column names: parsed in the execution dialect, re-normalised execution -> output *)
Definition names_of (F : pfacts) (E : engine) := match pf_names_of F E with Some n => n | None => pf_names F end.
(** (dialect the reported name is read in -- None when it is taken as data, exp.to_identifier --, from, to) *)
Definition names_resolved (F : pfacts) (E : engine) : option (option aval * aval * aval) :=
  let '(p, f, t) := names_of F E in
  match sassoc f (pf_str_to_dialect F), sassoc t (pf_str_to_dialect F) with
  | Some fd, Some td =>
      match aeval None fd, aeval None td with
      | Some fv, Some tv => Some (aeval None p, fv, tv)
      | _, _ => None
      end
  | _, _ => None
  end.
Definition names_ok (F : pfacts) : bool :=
  forallb (fun E => match names_resolved F E with
                    | Some (Some VExec, VExec, VOut) | Some (None, VExec, VOut) => true
                    | _ => false end) all_engines.

Theorem result_names_renormalised F :
  names_ok F = true -> forall E s u,
    exists p, names_resolved F E = Some (p, VExec, VOut)
              /\ (p = None \/ option_map (conc s u) p = Some (s_exec s))
              /\ conc s u VExec = s_exec s /\ conc s u VOut = s_out s.
Proof.
  intros H E s u. unfold names_ok in H. rewrite forallb_forall in H.
  specialize (H E (all_engines_complete E)).
  destruct (names_resolved F E) as [[[[[]|] []] []]|]; try discriminate.
  - exists (Some VExec). repeat split. right. reflexivity.
  - exists None. repeat split. left. reflexivity.
Qed.

(* ------------------------------------------------------------------------------------------------ *)
(** * (C) Function dispatch *)

Record ffacts := mkFfacts {
  ff_table : list (string * option (list string));   (* public name in base/functions.py -> unsupported_engines (None: no @meta) *)
  ff_filter : engine -> option (list string);         (* <engine>/functions.py: the keys tested `k not in func.unsupported_engines`;
                                                         None: `from sqlframe.base.functions import *` *)
  ff_module_by : dexp;                                (* get_func_from_session: dialect that selects the module *)
  ff_reject_by : dexp }.                              (* ... and that is tested against unsupported_engines in the fallback *)

Inductive dres := Found (name : string) | ErrAttribute | ErrNotImplemented | ErrImport.

Section Dispatch.
  Variable FF : ffacts.

  Definition private (n : string) : bool := match n with String "_" _ => true | _ => false end.
  (** names the engine's functions module binds *)
  Definition exported (E : engine) (n : string) : bool :=
    match sassoc n (ff_table FF), ff_filter FF E with
    | Some (Some uns), Some keys => forallb (fun k => negb (mem k uns)) keys
    | Some _, None => negb (private n)
    | _, _ => false
    end.
  Definition exports (E : engine) : list string := filter (exported E) (map fst (ff_table FF)).

  (** get_func_from_session(name, session, fallback) for a session whose dialects are [s] *)
  Definition dispatch (s : sess) (name : string) (fallback : bool) : dres :=
    match deval s None (ff_module_by FF) with
    | None => ErrImport
    | Some mod_dialect =>
        match engine_of_name mod_dialect with
        | None | Some Standalone => ErrImport                       (* no package sqlframe.<dialect>.functions for a dialect *)
        | Some M =>
            if exported M name then Found name
            else if negb fallback then ErrAttribute
            else match sassoc name (ff_table FF) with
                 | None => ErrAttribute
                 | Some None => ErrAttribute                        (* no .unsupported_engines attribute *)
                 | Some (Some uns) =>
                     match deval s None (ff_reject_by FF) with
                     | Some d => if mem d uns then ErrNotImplemented else Found name
                     | None => Found name
                     end
                 end
        end
    end.

  Variable B : bfacts.
  Variable T : engine -> efacts.
  Definition default_sess (E : engine) : sess := mkSess (in_default B T E) (out_default B T E) (exec_default B T E).

  (** total and correct on what the engine's own module exports, with or without fallback; and what it
      exports is never marked unsupported for that engine *)
  Definition dispatch_ok : bool :=
    forallb (fun E =>
      forallb (fun n => forallb (fun fb => match dispatch (default_sess E) n fb with Found m => String.eqb m n | _ => false end)
                                [true; false]
                        && match sassoc n (ff_table FF) with
                           | Some (Some uns) => negb (mem (engine_name E) uns)
                           | _ => false end)
              (exports E)) property_engines.

  Theorem dispatch_total_on_exports :
    dispatch_ok = true ->
    forall E, In E property_engines -> forall n, In n (exports E) ->
      (forall fb, dispatch (default_sess E) n fb = Found n) /\
      exists uns, sassoc n (ff_table FF) = Some (Some uns) /\ mem (engine_name E) uns = false.
  Proof.
    intros H E HE n Hn. unfold dispatch_ok in H. rewrite forallb_forall in H.
    specialize (H E HE). rewrite forallb_forall in H. specialize (H n Hn).
    apply andb_true_iff in H. destruct H as [H1 H2]. split.
    - intro fb. rewrite forallb_forall in H1.
      assert (Hfb : In fb [true; false]) by (destruct fb; simpl; tauto).
      specialize (H1 fb Hfb). destruct (dispatch (default_sess E) n fb); try discriminate.
      apply String.eqb_eq in H1. congruence.
    - destruct (sassoc n (ff_table FF)) as [[uns|]|]; try discriminate.
      exists uns. split; [reflexivity|]. apply negb_true_iff. exact H2.
  Qed.
End Dispatch.

(* ------------------------------------------------------------------------------------------------ *)
(** * Names up to letter case and sanitising (used by the correspondence check and by C12_full) *)

Definition lower_ascii (c : ascii) : ascii :=
  let n := nat_of_ascii c in if (65 <=? n)%nat && (n <=? 90)%nat then ascii_of_nat (n + 32) else c.
Fixpoint lower (s : string) : string :=
  match s with EmptyString => EmptyString | String c s' => String (lower_ascii c) (lower s') end.
Definition name_match (f : string -> string) (engine_name duck_name : string) : bool :=
  String.eqb (lower engine_name) (lower (f duck_name)).
