(** Executable glue for the C12 correspondence check (tie T2/T3): one case = one program (C01's wide alphabet)
    on one table, run on an engine session (statements read back through sqlglot as that dialect and executed
    on DuckDB) and on the DuckDB session. *)
From SF Require Export Model.ChainCheckX C12.Engines.
Open Scope string_scope.
Open Scope list_scope.

Record ecase := mkECase {
  e_input : frame;
  e_ops : list xop;
  e_mode : xmode;
  e_exported : option (list block);              (* the tree the ENGINE session built, None if not exportable *)
  e_impl : option (list string * list row);      (* columns/rows collect() returned on the engine session *)
  e_duck : option (list string * list row) }.    (* columns/rows collect() returned on the DuckDB session *)

Definition names_match (f : string -> string) (got ref : list string) : bool :=
  list_eqb (fun g r => name_match f g r) got ref.

(** verdict: t2 | engine=model | engine=spec | engine~duck | in-domain | engine-raised | duck-raised   (2 = n/a;
    "?" everywhere when the engine has no clause configuration, i.e. overrides a core method) *)
Definition echeck (oc : option cfg) (deco : string -> option opk) (f : string -> string) (k : ecase) : string :=
  match oc with
  | None => "???????"
  | Some c =>
      let input := e_input k in
      let ics := cols input in
      let spec := spec_xrun (e_ops k) input in
      let pre := match e_mode k with
                 | XSubOf _ | XDedup _ => spec_xrun (removelast (e_ops k)) input
                 | _ => mkFrame [] [] end in
      let md := run_x c deco (init_df ics) (e_ops k) in
      let mblocks := option_map (fun d => done d ++ [cur d]) md in
      let model := option_map (fun bs => eval_chain bs input) mblocks in
      let t2 := match mblocks, e_exported k with
                | Some mb, Some bs => Some (list_eqb block_eqb (nf ics bs) (nf ics mb))
                | _, _ => None end in
      let dom := match all_core (e_ops k) with
                 | Some us => ops_ok c (init_df ics) ics (desugar_all ics us)
                 | None => false end in
      let vs (ref : frame) (r : list string * list row) :=
          names_match f (fst r) (cols ref) && cmp_x (e_mode k) (cols pre) (rows ref) (rows pre) (snd r) in
      let em := match e_impl k, model with Some r, Some m => Some (vs m r) | _, _ => None end in
      let es := match e_impl k with Some r => vs spec r | None => false end in
      let ed := match e_impl k, e_duck k with
                | Some r, Some q =>
                    names_match f (fst r) (fst q)
                    && match e_mode k with
                       | XSeq => rows_eqb (snd q) (snd r)
                       | XBag => bag_eqb (snd q) (snd r)
                       | m => Nat.eqb (List.length (snd q)) (List.length (snd r))
                              && cmp_x m (cols pre) (rows spec) (rows pre) (snd r)
                              && cmp_x m (cols pre) (rows spec) (rows pre) (snd q)
                       end
                | _, _ => false
                end in
      (t2s t2 ++ t2s em ++ b2s es ++ b2s ed ++ b2s dom
           ++ b2s (match e_impl k with None => true | _ => false end)
           ++ b2s (match e_duck k with None => true | _ => false end))%string
  end.
