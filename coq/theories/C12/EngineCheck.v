(** Executable glue for the C12 correspondence check (tie T2/T3): one case = one program on one table,
    run on an engine session (statements read back through sqlglot as that dialect and executed on DuckDB)
    and on the DuckDB session. *)
From SF Require Export Model.ChainCheck C12.Engines.
Open Scope string_scope.
Open Scope list_scope.

Record ecase := mkECase {
  e_input : frame;
  e_ops : list uop;
  e_mode : cmp_mode;
  e_exported : option (list block);              (* the tree the ENGINE session built, None if not exportable *)
  e_impl : option (list string * list row);      (* columns/rows collect() returned on the engine session *)
  e_duck : option (list string * list row) }.    (* columns/rows collect() returned on the DuckDB session *)

Definition names_match (f : string -> string) (got ref : list string) : bool :=
  list_eqb (fun g r => name_match f g r) got ref.

(** verdict: t2 | engine=model | engine=spec | engine~duck | in-domain | engine-raised | duck-raised
    ("?" in every position when the engine has no clause configuration, i.e. overrides a core method) *)
Definition echeck (oc : option cfg) (f : string -> string) (k : ecase) : string :=
  match oc with
  | None => "???????"
  | Some c =>
      let ics := cols (e_input k) in
      let ops := desugar_all ics (e_ops k) in
      let d := compile c ops (init_df ics) in
      let mblocks := done d ++ [cur d] in
      let model := eval_chain mblocks (e_input k) in
      let spec := spec_run ops (e_input k) in
      let pre := match e_mode k with
                 | CmpSubOf _ => rows (spec_run (removelast ops) (e_input k))
                 | _ => [] end in
      let t2 := match e_exported k with
                | Some bs => list_eqb block_eqb (nf ics bs) (nf ics mblocks)
                | None => false end in
      let dom := ops_ok c (init_df ics) ics ops in
      let vs (ref : frame) (r : list string * list row) :=
          names_match f (fst r) (cols ref) && cmp_rows (e_mode k) (rows ref) pre (snd r) in
      let em := match e_impl k with Some r => vs model r | None => false end in
      let es := match e_impl k with Some r => vs spec r | None => false end in
      let ed := match e_impl k, e_duck k with
                | Some r, Some q =>
                    names_match f (fst r) (fst q)
                    && match e_mode k with
                       | CmpSeq => rows_eqb (snd q) (snd r)
                       | CmpBag => bag_eqb (snd q) (snd r)
                       | CmpSubOf n => Nat.eqb (List.length (snd q)) (List.length (snd r))
                                       && subbag (snd r) pre && subbag (snd q) pre
                       end
                | _, _ => false
                end in
      (b2s t2 ++ b2s em ++ b2s es ++ b2s ed ++ b2s dom
           ++ b2s (match e_impl k with None => true | _ => false end)
           ++ b2s (match e_duck k with None => true | _ => false end))%string
  end.
