(** C02 -- the implementation's join (C02.Model.m_join) builds exactly PySpark's join (sp_join): same join kind, same
    ON condition, same select list -- hence the same column list and the same rows for EVERY content of the input tables --
    on a decidable domain [step_dom]; chains of joins by induction.  The heart is the position-based column resolution
    ([resolve_items]): on a "canonical" select list the p-th occurrence of a name really is the p-th table's column. *)
From SF Require Export C02.Model.
From Coq Require Import Permutation.
Open Scope string_scope.
Open Scope list_scope.

(** * lists of names *)
Fixpoint nodupb (l : list string) : bool :=
  match l with [] => true | x :: r => negb (smem x r) && nodupb r end.

Lemma smem_In x l : smem x l = true <-> In x l.
Proof.
  unfold smem. rewrite existsb_exists. split.
  - intros [y [Hy E]]. apply String.eqb_eq in E. subst. exact Hy.
  - intro H. exists x. split; [exact H | apply String.eqb_refl].
Qed.

Lemma mem_smem x l : mem x l = smem x l.
Proof. reflexivity. Qed.

Lemma count_str_app n a b : count_str n (a ++ b) = (count_str n a + count_str n b)%nat.
Proof. induction a as [|x a IH]; simpl; [reflexivity|]. rewrite IH. lia. Qed.

Lemma count_str_notin n l : smem n l = false -> count_str n l = O.
Proof.
  induction l as [|x l IH]; simpl; intro H; [reflexivity|].
  apply orb_false_iff in H. destruct H as [H1 H2]. rewrite String.eqb_sym in H1. rewrite H1. simpl. auto.
Qed.

Lemma count_str_nodup n l : nodupb l = true -> count_str n l = if smem n l then 1%nat else O.
Proof.
  induction l as [|x l IH]; simpl; intro H; [reflexivity|].
  apply andb_true_iff in H. destruct H as [H1 H2]. apply negb_true_iff in H1.
  destruct (String.eqb x n) eqn:E.
  - apply String.eqb_eq in E. subst x. rewrite String.eqb_refl. simpl. rewrite count_str_notin by exact H1. reflexivity.
  - rewrite String.eqb_sym in E. rewrite E. simpl. apply IH. exact H2.
Qed.

Lemma count_str_filter_other n (f : string -> bool) l :
  f n = true -> count_str n (filter f l) = count_str n l.
Proof.
  intro H. induction l as [|x l IH]; simpl; [reflexivity|].
  destruct (f x) eqn:E; simpl.
  - rewrite IH. reflexivity.
  - destruct (String.eqb x n) eqn:E2; [apply String.eqb_eq in E2; subst; congruence|]. simpl. exact IH.
Qed.

(** * tables that have a column *)
Lemma tabs_with_app tcs tcs' n : tabs_with (tcs ++ tcs') n = tabs_with tcs n ++ tabs_with tcs' n.
Proof. unfold tabs_with. rewrite filter_app, map_app. reflexivity. Qed.

Lemma tabs_with_one j rc n : tabs_with [(j, rc)] n = if mem n rc then [j] else [].
Proof. unfold tabs_with. simpl. destruct (mem n rc); reflexivity. Qed.

Lemma combine_app {A B} (a a' : list A) (b b' : list B) :
  List.length a = List.length b -> combine (a ++ a') (b ++ b') = combine a b ++ combine a' b'.
Proof.
  revert b. induction a as [|x a IH]; intros [|y b] H; simpl in *; try discriminate; [reflexivity|].
  f_equal. apply IH. lia.
Qed.

Lemma indexed_app tabs R : indexed (tabs ++ [R]) = indexed tabs ++ [(List.length tabs, cols R)].
Proof.
  unfold indexed. rewrite app_length. simpl. rewrite Nat.add_1_r, seq_S, map_app. simpl.
  rewrite combine_app by (rewrite seq_length, map_length; reflexivity). reflexivity.
Qed.

Lemma pick_nth l p i : nth_error l p = Some i -> pick l p = Some i.
Proof.
  intro H. assert (Hlt : (p < List.length l)%nat) by (apply nth_error_Some; congruence).
  unfold pick. destruct l as [|x l]; [destruct p; discriminate|].
  replace (Nat.min p (List.length (x :: l) - 1)) with p by (simpl in *; lia). exact H.
Qed.

(** * canonical select lists: the p-th item named n is the column n of the p-th table that has one *)
Fixpoint canonb (tcs : list (nat * list string)) (seen : list string) (sel : list (expr * string)) : bool :=
  match sel with
  | [] => true
  | (e, n) :: r =>
      match nth_error (tabs_with tcs n) (count_str n seen) with
      | Some i => expr_eqb e (ECol (qn i n)) && canonb tcs (n :: seen) r
      | None => false
      end
  end.

Lemma expr_eqb_refl e : expr_eqb e e = true.
Proof.
  induction e; simpl; try rewrite ?IHe, ?IHe1, ?IHe2, ?IHe3; try reflexivity.
  - apply String.eqb_refl.
  - apply val_eqb_refl.
  - destruct o; reflexivity.
Qed.

(** on a canonical list the position-based resolution of the bare names gives the list back *)
Lemma resolve_canon tcs : forall sel seen,
  canonb tcs seen sel = true -> resolve_items tcs seen (map IName (map snd sel)) = sel.
Proof.
  induction sel as [|[e n] sel IH]; intros seen H; simpl in *; [reflexivity|].
  destruct (nth_error (tabs_with tcs n) (count_str n seen)) as [i|] eqn:E; [|discriminate].
  apply andb_true_iff in H. destruct H as [He Hr].
  apply expr_eqb_eq in He. subst e.
  unfold resolve_name. rewrite (pick_nth _ _ _ E). f_equal. apply IH. exact Hr.
Qed.

(** [seen] only matters through the counts *)
Lemma canonb_seen_ext tcs : forall sel seen seen',
  (forall n, count_str n seen = count_str n seen') -> canonb tcs seen sel = canonb tcs seen' sel.
Proof.
  induction sel as [|[e n] sel IH]; intros seen seen' H; simpl; [reflexivity|].
  rewrite (H n). destruct (nth_error _ _); [|reflexivity]. f_equal.
  apply IH. intro m. simpl. rewrite (H m). reflexivity.
Qed.

Lemma resolve_seen_ext tcs : forall items seen seen',
  (forall n, count_str n seen = count_str n seen') -> resolve_items tcs seen items = resolve_items tcs seen' items.
Proof.
  induction items as [|[n|e o] items IH]; intros seen seen' H; simpl; [reflexivity| |].
  - unfold resolve_name. rewrite (H n). f_equal. apply IH. intro m. simpl. rewrite (H m). reflexivity.
  - f_equal. apply IH. exact H.
Qed.

(** a further table at the end does not disturb a canonical list *)
Lemma canonb_more_tables tcs x : forall sel seen,
  canonb tcs seen sel = true -> canonb (tcs ++ [x]) seen sel = true.
Proof.
  induction sel as [|[e n] sel IH]; intros seen H; simpl in *; [reflexivity|].
  destruct (nth_error (tabs_with tcs n) (count_str n seen)) as [i|] eqn:E; [|discriminate].
  rewrite tabs_with_app, nth_error_app1 by (apply nth_error_Some; congruence). rewrite E.
  apply andb_true_iff in H. destruct H as [He Hr]. rewrite He. simpl. apply IH. exact Hr.
Qed.

(** removing all items whose name is in [ks] keeps the rest canonical, whatever was seen of the names in [ks] *)
Lemma canonb_filter tcs ks : forall sel seen seen',
  (forall n, smem n ks = false -> count_str n seen' = count_str n seen) ->
  canonb tcs seen sel = true ->
  canonb tcs seen' (filter (fun it : expr * string => negb (smem (snd it) ks)) sel) = true.
Proof.
  induction sel as [|[e n] sel IH]; intros seen seen' H Hc; simpl in *; [reflexivity|].
  destruct (nth_error (tabs_with tcs n) (count_str n seen)) as [i|] eqn:E; [|discriminate].
  apply andb_true_iff in Hc. destruct Hc as [He Hr].
  destruct (smem n ks) eqn:Ek; simpl.
  - apply (IH (n :: seen) seen'); [|exact Hr].
    intros m Hm. simpl. destruct (String.eqb n m) eqn:Enm.
    + apply String.eqb_eq in Enm. subst. congruence.
    + simpl. apply H. exact Hm.
  - rewrite (H n Ek), E, He. simpl. apply (IH (n :: seen) (n :: seen')); [|exact Hr].
    intros m Hm. simpl. rewrite (H m Hm). reflexivity.
Qed.

Lemma names_filter ks (sel : list (expr * string)) :
  map snd (filter (fun it : expr * string => negb (smem (snd it) ks)) sel)
  = filter (fun n => negb (smem n ks)) (map snd sel).
Proof.
  induction sel as [|[e n] sel IH]; simpl; [reflexivity|].
  destruct (smem n ks); simpl; rewrite IH; reflexivity.
Qed.

(** the columns of the new (last) table: each name once, and every earlier table that has the name already has its
    item in the list ("complete"), so the next occurrence is the new table's *)
Lemma resolve_new_table tcs j rc : forall (rn : list string) seen,
  nodupb rn = true ->
  (forall n, In n rn -> mem n rc = true /\ count_str n seen = List.length (tabs_with tcs n)) ->
  resolve_items (tcs ++ [(j, rc)]) seen (map IName rn) = map (fun n => (ECol (qn j n), n)) rn
  /\ canonb (tcs ++ [(j, rc)]) seen (map (fun n => (ECol (qn j n), n)) rn) = true.
Proof.
  induction rn as [|n rn IH]; intros seen Hnd H; simpl; [split; reflexivity|].
  simpl in Hnd. apply andb_true_iff in Hnd. destruct Hnd as [Hn Hnd]. apply negb_true_iff in Hn.
  destruct (H n (or_introl eq_refl)) as [Hm Hc].
  assert (E : nth_error (tabs_with (tcs ++ [(j, rc)]) n) (count_str n seen) = Some j).
  { rewrite tabs_with_app, tabs_with_one, Hm, Hc.
    rewrite nth_error_app2 by lia. rewrite Nat.sub_diag. reflexivity. }
  assert (IH' := IH (n :: seen) Hnd).
  assert (Hpre : forall m, In m rn -> mem m rc = true /\ count_str m (n :: seen) = List.length (tabs_with tcs m)).
  { intros m Hm'. destruct (H m (or_intror Hm')) as [Hm1 Hm2]. split; [exact Hm1|].
    simpl. destruct (String.eqb n m) eqn:Enm.
    - apply String.eqb_eq in Enm. subst m.
      assert (smem n rn = true) by (apply smem_In; exact Hm'). congruence.
    - simpl. exact Hm2. }
  destruct (IH' Hpre) as [IH1 IH2].
  split.
  - unfold resolve_name. rewrite (pick_nth _ _ _ E). f_equal. exact IH1.
  - rewrite E. cbn [expr_eqb]. rewrite String.eqb_refl. simpl. exact IH2.
Qed.

(** canonical lists can be concatenated when the counts continue *)
Lemma canonb_app tcs : forall a b seen,
  canonb tcs seen a = true -> canonb tcs (rev (map snd a) ++ seen) b = true -> canonb tcs seen (a ++ b) = true.
Proof.
  induction a as [|[e n] a IH]; intros b seen Ha Hb; simpl in *; [exact Hb|].
  destruct (nth_error (tabs_with tcs n) (count_str n seen)) as [i|]; [|discriminate].
  apply andb_true_iff in Ha. destruct Ha as [He Hr]. rewrite He. simpl.
  apply IH; [exact Hr|]. rewrite <- app_assoc in Hb. exact Hb.
Qed.

Lemma resolve_items_app tcs : forall a b seen,
  resolve_items tcs seen (map IName a ++ b)
  = resolve_items tcs seen (map IName a) ++ resolve_items tcs (rev a ++ seen) b.
Proof.
  induction a as [|n a IH]; intros b seen; simpl; [reflexivity|].
  f_equal. rewrite IH. rewrite <- app_assoc. reflexivity.
Qed.

Lemma count_str_rev n l : count_str n (rev l) = count_str n l.
Proof. induction l as [|x l IH]; simpl; [reflexivity|]. rewrite count_str_app, IH. simpl. lia. Qed.

Lemma nodupb_filter (f : string -> bool) l : nodupb l = true -> nodupb (filter f l) = true.
Proof.
  induction l as [|x l IH]; simpl; intro H; [reflexivity|].
  apply andb_true_iff in H. destruct H as [H1 H2]. apply negb_true_iff in H1.
  destruct (f x); simpl; [|auto].
  rewrite IH by exact H2. rewrite andb_true_r. apply negb_true_iff.
  destruct (smem x (filter f l)) eqn:E; [|reflexivity].
  apply smem_In in E. apply filter_In in E. destruct E as [E _].
  apply smem_In in E. congruence.
Qed.

Lemma named_none k (sel : list (expr * string)) : count_str k (map snd sel) = O -> named k sel = [].
Proof.
  unfold named. induction sel as [|[e n] sel IH]; simpl; intro H; [reflexivity|].
  destruct (String.eqb n k); simpl in *; [discriminate | auto].
Qed.

(** on a canonical list a name that occurs once is the column of the first table that has it *)
Lemma canon_named_single tcs k i : forall sel seen,
  canonb tcs seen sel = true -> count_str k seen = O -> count_str k (map snd sel) = 1%nat ->
  hd_error (tabs_with tcs k) = Some i ->
  named k sel = [(ECol (qn i k), k)].
Proof.
  induction sel as [|[e n] sel IH]; intros seen Hc Hs H1 Hn; simpl in *; [discriminate|].
  destruct (nth_error (tabs_with tcs n) (count_str n seen)) as [i'|] eqn:E; [|discriminate].
  apply andb_true_iff in Hc. destruct Hc as [He Hr]. apply expr_eqb_eq in He. subst e.
  unfold named. simpl. destruct (String.eqb n k) eqn:Enk.
  - apply String.eqb_eq in Enk. subst n. rewrite Hs in E.
    assert (i' = i) by (destruct (tabs_with tcs k); simpl in *; congruence). subst i'.
    f_equal. apply named_none. lia.
  - apply (IH (n :: seen)); auto. simpl. rewrite Enk. simpl. exact Hs.
Qed.

(** * the domain of the theorem *)
Definition complete (s : st) (n : string) : bool :=
  Nat.eqb (count_str n (map snd (s_sel s))) (List.length (tabs_with (indexed (s_tabs s)) n)).

Definition key_ok (s : st) (R : frame) (k : string) : bool :=
  match first_tab_with (indexed (s_tabs s)) k with
  | Some _ => Nat.eqb (count_str k (map snd (s_sel s))) 1 && Nat.eqb (count_str k (cols R)) 1
  | None => false
  end.

Definition denotes (ctes : list cmeta) (f : cmeta -> bool) : option (option nat) :=
  option_map cm_tab (find f (rev ctes)).
Definition carries_id (b : nat) (c : cmeta) : bool := Nat.eqb (cm_branch c) b || Nat.eqb (cm_seq c) b.
Definition carries_seq (sq : list nat) (c : cmeta) : bool := nat_mem (cm_seq c) sq.

Definition is_tab (x : option (option nat)) (t : nat) : bool :=
  match x with Some (Some t') => Nat.eqb t' t | _ => false end.

(** lineage class of one reference inside an ON condition: the id it carries denotes, in the CTE list of the left side or
    else of the joined expression, exactly the table the user took the column from; both sides have different branch ids
    (independent inputs), or the reference goes through an alias *)
Definition ref_dom (ctes octes : list cmeta) (has_joins same_branch : bool) (r : ref) : bool :=
  match r with
  | RName _ => false
  | RDf t b _ _ =>
      negb same_branch && negb (has_joins && first_two_same_branch ctes) &&
      match denotes ctes (carries_id b) with
      | Some x => is_tab (Some x) t
      | None => negb (first_two_same_branch (ctes ++ octes)) && is_tab (denotes (ctes ++ octes) (carries_id b)) t
      end
  | RAlias t sq _ =>
      match denotes ctes (carries_seq sq) with
      | Some x => is_tab (Some x) t
      | None => is_tab (denotes (ctes ++ octes) (carries_seq sq)) t
      end
  end.

Fixpoint uexpr_dom (f : ref -> bool) (e : uexpr) : bool :=
  match e with
  | UCol r => f r
  | ULit _ => true
  | UBin _ a b => uexpr_dom f a && uexpr_dom f b
  | UNot a | UIsNull a => uexpr_dom f a
  end.

Definition kind_of_how (how : string) : jkind :=
  match spark_kind how with Some JCross => JInner | Some k => k | None => JInner end.

Definition step_dom (c : howcfg) (s : st) (R : frame) (rbase : nat) (octes : list cmeta) (on : onform) (how : string) (same_branch : bool)
  (stale : option nat) : bool :=
  let k := kind_of_how how in
  let has_joins := negb (Nat.eqb (List.length (s_tabs s)) 1) in
  let out' := s_sel s ++ map (fun n => (ECol (qn (List.length (s_tabs s)) n), n)) (cols R) in
  match stale with None => true | Some _ => false end &&
  how_accepted c how && nodupb (cols R) && negb (jkind_eqb k JRight) &&
  match on with
  | OnNone => none_accepted c how && (is_semi_anti k || forallb (complete s) (cols R))
  | OnNames ks =>
      negb (match ks with [] => true | _ => false end) && nodupb ks && forallb (key_ok s R) ks
      && (is_semi_anti k || forallb (complete s) (filter (fun n => negb (smem n ks)) (cols R)))
  | OnExprs es =>
      negb (match es with [] => true | _ => false end)
      && forallb (uexpr_dom (fun r => ref_dom (s_ctes s) octes has_joins same_branch r
                                      && ref_valid (s_tabs s ++ [R]) (s_bases s ++ [rbase]) out' r)) es
      && (is_semi_anti k || forallb (complete s) (cols R))
  end.

(** the state invariant: canonical select list, no earlier right join, nothing but joins so far *)
Definition inv (s : st) : bool :=
  canonb (indexed (s_tabs s)) [] (s_sel s) && negb (s_first_right s)
  && match s_where s with [] => true | _ => false end.

(** after a full outer name join the key is a COALESCE: the list is no longer canonical *)
Definition keeps_inv (on : onform) (how : string) : bool :=
  negb (match on with OnNames _ => jkind_eqb (kind_of_how how) JFull | _ => false end).

(** * the flags of a documented spelling *)
Lemma flags_for_spec k f :
  flags_for k f = true ->
  let k' := match k with JCross => JInner | _ => k end in
  f_kind f = Some k' /\ f_left_only f = is_semi_anti k' /\ f_cross f = false
  /\ f_full f = jkind_eqb k' JFull /\ f_right_side f = jkind_eqb k' JRight.
Proof.
  unfold flags_for. intro H.
  apply andb_true_iff in H; destruct H as [H H5].
  apply andb_true_iff in H; destruct H as [H H4].
  apply andb_true_iff in H; destruct H as [H H3].
  apply andb_true_iff in H; destruct H as [H1 H2].
  destruct (f_kind f) as [e|]; [|discriminate].
  apply jkind_eqb_eq in H1. subst e.
  apply Bool.eqb_prop in H2. apply Bool.eqb_prop in H4. apply Bool.eqb_prop in H5.
  apply negb_true_iff in H3.
  repeat split; assumption.
Qed.

(** * ON conditions: references that denote their table resolve as PySpark resolves them *)
Lemma on_ref_ok ctes octes hj nt sb tcs' ot r :
  ref_dom ctes octes hj sb r = true ->
  match r with
  | RDf t _ _ n | RAlias t _ n => norm_on_ref ctes octes hj nt sb tcs' ot r = RQ t n
  | RName _ => False
  end.
Proof.
  destruct r as [n|t b uo n|t sq n]; simpl; intro H; [discriminate| |].
  - apply andb_true_iff in H. destruct H as [H H3].
    apply andb_true_iff in H. destruct H as [H1 H2].
    apply negb_true_iff in H1. apply negb_true_iff in H2. subst sb.
    unfold norm_on_ref, norm_ref. rewrite H2.
    assert (Hp2 : (match uo with true => cte_table (find (fun c => Nat.eqb (cm_branch c) b || Nat.eqb (cm_seq c) b) (rev ctes)) n
                              | false => cte_table (find (fun c => Nat.eqb (cm_branch c) b || Nat.eqb (cm_seq c) b) (rev ctes)) n end)
                  = cte_table (find (carries_id b) (rev ctes)) n) by (destruct uo; reflexivity).
    replace (match uo with true => _ | false => _ end)
      with (cte_table (find (carries_id b) (rev ctes)) n) by (destruct uo; reflexivity).
    unfold denotes in H3.
    destruct (find (carries_id b) (rev ctes)) as [c0|] eqn:E; simpl in H3.
    + unfold cte_table. destruct (cm_tab c0) as [t'|]; [|discriminate].
      apply Nat.eqb_eq in H3. subst. reflexivity.
    + apply andb_true_iff in H3. destruct H3 as [H4 H5]. apply negb_true_iff in H4.
      simpl. rewrite H4.
      change (fun c => Nat.eqb (cm_branch c) b || Nat.eqb (cm_seq c) b) with (carries_id b).
      destruct (find (carries_id b) (rev (ctes ++ octes))) as [c1|]; simpl in H5; [|discriminate].
      unfold cte_table. destruct (cm_tab c1) as [t'|]; [|discriminate].
      apply Nat.eqb_eq in H5. subst. reflexivity.
  - unfold norm_on_ref, norm_ref. unfold denotes in H.
    change (fun c => nat_mem (cm_seq c) sq) with (carries_seq sq).
    destruct (find (carries_seq sq) (rev ctes)) as [c0|] eqn:E; simpl in H.
    + unfold cte_table. destruct (cm_tab c0) as [t'|]; [|discriminate].
      apply Nat.eqb_eq in H. subst. reflexivity.
    + simpl. destruct (find (carries_seq sq) (rev (ctes ++ octes))) as [c1|]; simpl in H; [|discriminate].
      unfold cte_table. destruct (cm_tab c1) as [t'|]; [|discriminate].
      apply Nat.eqb_eq in H. subst. reflexivity.
Qed.

Lemma on_uexpr_ok ctes octes hj nt sb tcs' ot valid out e :
  uexpr_dom (fun r => ref_dom ctes octes hj sb r && valid r) e = true ->
  resolve_uexpr (norm_on_ref ctes octes hj nt sb tcs' ot) e = sp_uexpr valid out e.
Proof.
  induction e as [r|v|o a IHa b IHb|a IHa|a IHa]; simpl; intro H.
  - apply andb_true_iff in H. destruct H as [H Hv]. rewrite Hv.
    assert (H' := on_ref_ok ctes octes hj nt sb tcs' ot r H).
    destruct r as [n|t b uo n|t sq n]; [contradiction| |]; rewrite H'; reflexivity.
  - reflexivity.
  - apply andb_true_iff in H. destruct H as [H1 H2]. rewrite IHa, IHb by assumption. reflexivity.
  - rewrite IHa by assumption. reflexivity.
  - rewrite IHa by assumption. reflexivity.
Qed.

Lemma map_opt_ext_in {A B} (f g : A -> option B) l :
  (forall x, In x l -> f x = g x) -> map_opt f l = map_opt g l.
Proof.
  induction l as [|x l IH]; simpl; intro H; [reflexivity|].
  rewrite (H x) by (left; reflexivity). rewrite IH by (intros; apply H; right; assumption). reflexivity.
Qed.

Lemma nonkey_map j ks (l : list string) :
  map (fun n => (ECol (qn j n), n)) (filter (fun n => negb (smem n ks)) l)
  = filter (fun it : expr * string => negb (smem (snd it) ks)) (map (fun n => (ECol (qn j n), n)) l).
Proof.
  induction l as [|n l IH]; simpl; [reflexivity|].
  destruct (smem n ks); simpl; rewrite IH; reflexivity.
Qed.

(** * select lists *)
Section SelectLists.
  Variables (s : st) (R : frame).
  Let tcs := indexed (s_tabs s).
  Let j := List.length (s_tabs s).
  Let tcs' := indexed (s_tabs s ++ [R]).
  Let rout := map (fun n => (ECol (qn j n), n)) (cols R).
  Hypothesis Hcanon : canonb tcs [] (s_sel s) = true.
  Hypothesis Hnd : nodupb (cols R) = true.

  Lemma tcs'_eq : tcs' = tcs ++ [(j, cols R)].
  Proof. apply indexed_app. Qed.

  Lemma sel_left_only :
    resolve_items tcs' [] (map IName (map snd (s_sel s))) = s_sel s /\ canonb tcs' [] (s_sel s) = true.
  Proof.
    rewrite tcs'_eq. assert (H := canonb_more_tables tcs (j, cols R) _ _ Hcanon).
    split; [apply resolve_canon; exact H | exact H].
  Qed.

  Lemma complete_count n : complete s n = true -> count_str n (map snd (s_sel s)) = List.length (tabs_with tcs n).
  Proof. unfold complete. apply Nat.eqb_eq. Qed.

  Lemma sel_all :
    forallb (complete s) (cols R) = true ->
    resolve_items tcs' [] (map IName (map snd (s_sel s) ++ cols R)) = s_sel s ++ rout
    /\ canonb tcs' [] (s_sel s ++ rout) = true.
  Proof.
    intro Hc. rewrite forallb_forall in Hc.
    destruct sel_left_only as [H1 H2].
    assert (Hnew := resolve_new_table tcs j (cols R) (cols R) (rev (map snd (s_sel s)) ++ []) Hnd).
    rewrite <- tcs'_eq in Hnew.
    destruct Hnew as [N1 N2].
    { intros n Hn. split; [apply smem_In; exact Hn|].
      rewrite app_nil_r, count_str_rev. apply complete_count. apply Hc. exact Hn. }
    split.
    - rewrite map_app, resolve_items_app, H1. f_equal. exact N1.
    - apply canonb_app; [exact H2 | exact N2].
  Qed.

  (** name join: keys first, each once; then the other columns of both sides *)
  Variable ks : list string.
  Variable pairs : list (nat * string).
  Hypothesis Hks : map snd pairs = ks.
  Hypothesis Hndk : nodupb ks = true.
  Hypothesis Hpairs : forall p, In p pairs -> hd_error (tabs_with tcs (snd p)) = Some (fst p).
  Let nonkey := filter (fun it : expr * string => negb (smem (snd it) ks)).
  Let keycols := map (fun p : nat * string => (ECol (qn (fst p) (snd p)), snd p)) pairs.

  Lemma hd_tcs' k i : hd_error (tabs_with tcs k) = Some i -> nth_error (tabs_with tcs' k) 0 = Some i.
  Proof.
    intro H. rewrite tcs'_eq, tabs_with_app. destruct (tabs_with tcs k); simpl in *; [discriminate | exact H].
  Qed.

  Lemma resolve_keys : forall ps seen,
    (forall p, In p ps -> In p pairs) -> nodupb (map snd ps) = true ->
    (forall p, In p ps -> count_str (snd p) seen = O) ->
    resolve_items tcs' seen (map IName (map snd ps)) = map (fun p : nat * string => (ECol (qn (fst p) (snd p)), snd p)) ps
    /\ canonb tcs' seen (map (fun p : nat * string => (ECol (qn (fst p) (snd p)), snd p)) ps) = true.
  Proof.
    induction ps as [|[i k] ps IH]; intros seen Hin Hn Hs; simpl; [split; reflexivity|].
    simpl in Hn. apply andb_true_iff in Hn. destruct Hn as [Hn1 Hn2]. apply negb_true_iff in Hn1.
    assert (E : nth_error (tabs_with tcs' k) (count_str k seen) = Some i).
    { assert (H0 := Hs (i, k) (or_introl eq_refl)). simpl in H0. rewrite H0.
      apply hd_tcs'. apply (Hpairs (i, k)). apply Hin. left; reflexivity. }
    destruct (IH (k :: seen)) as [I1 I2].
    { intros p Hp. apply Hin. right; exact Hp. }
    { exact Hn2. }
    { intros p Hp. simpl. destruct (String.eqb k (snd p)) eqn:Ek.
      - apply String.eqb_eq in Ek. exfalso.
        assert (smem k (map snd ps) = true) by (apply smem_In; rewrite Ek; apply in_map; exact Hp). congruence.
      - simpl. apply Hs. right; exact Hp. }
    split.
    - unfold resolve_name. rewrite (pick_nth _ _ _ E). f_equal. exact I1.
    - rewrite E. cbn [expr_eqb]. rewrite String.eqb_refl. simpl. exact I2.
  Qed.

  Lemma count_rev_ks_nonkey n : smem n ks = false -> count_str n (rev ks) = O.
  Proof. intro H. rewrite count_str_rev. apply count_str_notin. exact H. Qed.

  Lemma nonkey_rout :
    map (fun n => (ECol (qn j n), n)) (filter (fun n => negb (smem n ks)) (cols R)) = nonkey rout.
  Proof.
    unfold nonkey, rout. apply nonkey_map.
  Qed.

  (** the rest of a name join's list, resolved after the keys have been seen ([seen0] = what the key part left) *)
  Lemma sel_rest (left_only : bool) seen0 :
    (forall n, smem n ks = false -> count_str n seen0 = O) ->
    (left_only = true \/ forallb (complete s) (filter (fun n => negb (smem n ks)) (cols R)) = true) ->
    let names := if left_only then map snd (s_sel s) else map snd (s_sel s) ++ cols R in
    let expect := nonkey (s_sel s) ++ (if left_only then [] else nonkey rout) in
    resolve_items tcs' seen0 (map IName (filter (fun n => negb (smem n ks)) names)) = expect
    /\ canonb tcs' seen0 expect = true.
  Proof.
    intros Hs0 Hc names expect.
    assert (Hl : canonb tcs' seen0 (nonkey (s_sel s)) = true).
    { rewrite tcs'_eq. apply canonb_more_tables. apply (canonb_filter tcs ks _ [] seen0); [|exact Hcanon].
      intros n Hn. rewrite (Hs0 n Hn). reflexivity. }
    assert (Hl2 : resolve_items tcs' seen0 (map IName (filter (fun n => negb (smem n ks)) (map snd (s_sel s)))) = nonkey (s_sel s)).
    { rewrite <- names_filter. apply resolve_canon. exact Hl. }
    unfold names, expect. destruct left_only.
    - rewrite app_nil_r. split; assumption.
    - destruct Hc as [Hc|Hc]; [discriminate|]. rewrite forallb_forall in Hc.
      rewrite filter_app, map_app, resolve_items_app, Hl2.
      assert (Hnew := resolve_new_table tcs j (cols R) (filter (fun n => negb (smem n ks)) (cols R))
                        (rev (filter (fun n => negb (smem n ks)) (map snd (s_sel s))) ++ seen0)
                        (nodupb_filter _ _ Hnd)).
      rewrite <- tcs'_eq in Hnew. destruct Hnew as [N1 N2].
      { intros n Hn. assert (Hn' := Hn). apply filter_In in Hn'. destruct Hn' as [Hn1 Hn2].
        apply negb_true_iff in Hn2.
        split; [apply smem_In; exact Hn1|].
        rewrite count_str_app, count_str_rev, (Hs0 n Hn2), Nat.add_0_r.
        rewrite count_str_filter_other by (rewrite Hn2; reflexivity).
        apply complete_count. apply Hc. exact Hn. }
      rewrite nonkey_rout in N1, N2.
      split; [f_equal; exact N1|].
      apply canonb_app; [exact Hl|].
      unfold nonkey in *. rewrite names_filter. exact N2.
  Qed.
End SelectLists.

Lemma keys_resolve s R ks :
  canonb (indexed (s_tabs s)) [] (s_sel s) = true ->
  forallb (key_ok s R) ks = true ->
  exists pairs,
    map_opt (fun k => option_map (fun i => (i, k)) (first_tab_with (indexed (s_tabs s)) k)) ks = Some pairs
    /\ map snd pairs = ks
    /\ (forall p, In p pairs -> hd_error (tabs_with (indexed (s_tabs s)) (snd p)) = Some (fst p))
    /\ map_opt (fun key => match named key (s_sel s), count_str key (cols R) with
                           | it :: _, 1%nat => Some (fst it, key)
                           | _, _ => None
                           end) ks
       = Some (map (fun p : nat * string => (ECol (qn (fst p) (snd p)), snd p)) pairs).
Proof.
  intros Hc. induction ks as [|k ks IH]; intro H.
  - exists []. simpl. repeat split; try reflexivity. intros p [].
  - simpl in H. apply andb_true_iff in H. destruct H as [Hk Hr].
    destruct (IH Hr) as [pairs [P1 [P2 [P3 P4]]]].
    unfold key_ok in Hk. unfold first_tab_with in *.
    destruct (hd_error (tabs_with (indexed (s_tabs s)) k)) as [i|] eqn:E; [|discriminate].
    apply andb_true_iff in Hk. destruct Hk as [K1 K2]. apply Nat.eqb_eq in K1. apply Nat.eqb_eq in K2.
    exists ((i, k) :: pairs). simpl. rewrite E. simpl. rewrite P1.
    split; [reflexivity|]. split; [rewrite P2; reflexivity|]. split.
    + intros p [<-|Hp]; [exact E | apply P3; exact Hp].
    + rewrite (canon_named_single _ k i _ [] Hc eq_refl K1 E). rewrite K2. simpl. rewrite P4. reflexivity.
Qed.

Lemma keys_counts s R ks :
  forallb (key_ok s R) ks = true ->
  forall k, In k ks -> count_str k (map snd (s_sel s)) = 1%nat /\ count_str k (cols R) = 1%nat.
Proof.
  intros H k Hk. rewrite forallb_forall in H. specialize (H k Hk). unfold key_ok in H.
  destruct (first_tab_with _ _); [|discriminate].
  apply andb_true_iff in H. destruct H as [H1 H2]. apply Nat.eqb_eq in H1. apply Nat.eqb_eq in H2. auto.
Qed.

Lemma filter_neq_none k (out : list (expr * string)) :
  count_str k (map snd out) = O -> filter (fun it : expr * string => negb (String.eqb (snd it) k)) out = out.
Proof.
  induction out as [|it r IH]; simpl; intro H; [reflexivity|].
  destruct (String.eqb (snd it) k); simpl in *; [discriminate|]. f_equal. auto.
Qed.

Lemma remove_first_filter k : forall out : list (expr * string),
  count_str k (map snd out) = 1%nat ->
  remove_first k out = filter (fun it : expr * string => negb (String.eqb (snd it) k)) out.
Proof.
  induction out as [|it r IH]; simpl; intro H; [discriminate|].
  destruct (String.eqb (snd it) k) eqn:E; simpl in *.
  - symmetry. apply filter_neq_none. lia.
  - f_equal. apply IH. exact H.
Qed.

Lemma count_filter_neq k k' (out : list (expr * string)) :
  String.eqb k k' = false ->
  count_str k' (map snd (filter (fun it : expr * string => negb (String.eqb (snd it) k)) out)) = count_str k' (map snd out).
Proof.
  intro Hne. induction out as [|it r IH]; simpl; [reflexivity|].
  destruct (String.eqb (snd it) k) eqn:E; simpl.
  - apply String.eqb_eq in E. rewrite E, Hne. simpl. exact IH.
  - rewrite IH. reflexivity.
Qed.

Lemma drop_keys_filter : forall ks (out : list (expr * string)),
  nodupb ks = true -> (forall k, In k ks -> count_str k (map snd out) = 1%nat) ->
  drop_keys ks out = filter (fun it : expr * string => negb (smem (snd it) ks)) out.
Proof.
  unfold drop_keys. induction ks as [|k ks IH]; intros out Hnd H; simpl.
  - symmetry. apply filter_true. reflexivity.
  - simpl in Hnd. apply andb_true_iff in Hnd. destruct Hnd as [Hk Hnd]. apply negb_true_iff in Hk.
    rewrite remove_first_filter by (apply H; left; reflexivity).
    rewrite IH; [|exact Hnd|].
    + clear. induction out as [|it r IHr]; simpl; [reflexivity|].
      rewrite (String.eqb_sym (snd it) k).
      destruct (String.eqb k (snd it)); simpl; [exact IHr|].
      destruct (smem (snd it) ks); simpl; [exact IHr | f_equal; exact IHr].
    + intros k' Hk'. rewrite count_filter_neq; [apply H; right; exact Hk'|].
      destruct (String.eqb k k') eqn:E; [|reflexivity].
      apply String.eqb_eq in E. subst. assert (smem k' ks = true) by (apply smem_In; exact Hk'). congruence.
Qed.

Lemma names_rout j (l : list string) : map snd (map (fun n => (ECol (qn j n), n)) l) = l.
Proof. rewrite map_map. simpl. apply map_id. Qed.

Lemma conj_keys j (pairs : list (nat * string)) :
  conj_left (map (fun q : expr * string => EBin Eq (fst q) (ECol (qn j (snd q))))
                 (map (fun p : nat * string => (ECol (qn (fst p) (snd p)), snd p)) pairs))
  = conj_left (map (key_eq j) pairs).
Proof. rewrite map_map. reflexivity. Qed.

Lemma resolve_iexpr_prefix tcs (f : nat * string -> expr) (g : nat * string -> string) ps b seen :
  resolve_items tcs seen (map (fun p => IExpr (f p) (g p)) ps ++ b)
  = map (fun p => (f p, g p)) ps ++ resolve_items tcs seen b.
Proof. induction ps as [|p ps IH]; simpl; [reflexivity|]. rewrite IH. reflexivity. Qed.

(** * one join step *)
Theorem join_step_ok c s R rbase octes on how sb stale :
  cfg_how_ok c = true -> cfg_none_ok c = true ->
  inv s = true -> step_dom c s R rbase octes on how sb stale = true ->
  exists s', m_join c s R rbase octes on how sb stale = Some s'
    /\ sp_join (sp_of s) R rbase on how = Some (sp_of s')
    /\ (keeps_inv on how = true -> inv s' = true).
Proof.
  intros Hcfg Hcfgn Hinv Hdom.
  unfold inv in Hinv.
  apply andb_true_iff in Hinv. destruct Hinv as [Hinv Hwh].
  apply andb_true_iff in Hinv. destruct Hinv as [Hcanon Hfr]. apply negb_true_iff in Hfr.
  destruct (s_where s) as [|w0 ws] eqn:Ewh; [clear Hwh | discriminate].
  unfold step_dom in Hdom.
  apply andb_true_iff in Hdom. destruct Hdom as [Hdom Hon].
  apply andb_true_iff in Hdom. destruct Hdom as [Hdom Hnr]. apply negb_true_iff in Hnr.
  apply andb_true_iff in Hdom. destruct Hdom as [Hdom Hnd].
  apply andb_true_iff in Hdom. destruct Hdom as [Hst Hdoc].
  destruct stale as [st0|]; [discriminate|]. clear Hst.
  destruct (accepted_kind c how Hcfg Hdoc) as [k0 [Hk0 Hflags]].
  assert (Hkind : kind_of_how how = match k0 with JCross => JInner | _ => k0 end).
  { unfold kind_of_how. rewrite Hk0. destruct k0; reflexivity. }
  set (k' := match k0 with JCross => JInner | _ => k0 end) in *.
  apply flags_for_spec in Hflags. fold k' in Hflags.
  destruct Hflags as [Fk [Flo [Fcr [Ffu Fri]]]].
  rewrite Hkind in Hnr, Hon. rewrite Hnr in Fri.
  set (j := List.length (s_tabs s)).
  assert (Hfr' : forall b : bool, (if negb (Nat.eqb j 1) then s_first_right s else b) = if negb (Nat.eqb j 1) then false else b)
    by (intro b; rewrite Hfr; reflexivity).
  assert (Hff : (if negb (Nat.eqb j 1) then false else false) = false) by (destruct (negb (Nat.eqb j 1)); reflexivity).
  destruct on as [|ks|es].
  - (* no condition *)
    apply andb_true_iff in Hon. destruct Hon as [Hic Hcomp].
    destruct (none_accepted_ok c how Hcfgn Hic) as [k1 [Hk1 [Hnd1 Hnf]]].
    rewrite Hk0 in Hk1. inversion Hk1; subst k1. clear Hk1.
    destruct (jkind_eqb k0 JInner || jkind_eqb k0 JCross) eqn:Eprod.
    + (* inner / cross: the product *)
      assert (Hk0' : k0 = JInner \/ k0 = JCross).
      { apply orb_true_iff in Eprod. destruct Eprod as [N1|N1]; apply jkind_eqb_eq in N1; auto. }
      assert (Hnf' : match f_kind (impl_flags c true how) with
                     | Some JCross => f_cross (impl_flags c true how) && negb (f_left_only (impl_flags c true how))
                                      && negb (f_right_side (impl_flags c true how))
                     | _ => false end = true) by (destruct Hk0' as [-> | ->]; exact Hnf).
      destruct (f_kind (impl_flags c true how)) as [[]|] eqn:Ek; try discriminate.
      apply andb_true_iff in Hnf'. destruct Hnf' as [Hn N4]. apply negb_true_iff in N4.
      apply andb_true_iff in Hn. destruct Hn as [N2 N3]. apply negb_true_iff in N3.
      assert (Hsa : is_semi_anti k' = false) by (unfold k'; destruct Hk0' as [-> | ->]; reflexivity).
      rewrite Hsa in Hcomp. simpl in Hcomp.
      destruct (sel_all s R Hcanon Hnd Hcomp) as [S1 S2].
      eexists. split; [|split].
      * unfold m_join. rewrite Ek, N2, N3, N4. fold j. rewrite Hfr, Hff.
        unfold order_of. rewrite S1. reflexivity.
      * unfold sp_join, sp_of. simpl. rewrite Hk0.
        destruct Hk0' as [-> | ->]; simpl; rewrite Ewh; reflexivity.
      * intros _. unfold inv. simpl. rewrite S2, Ewh. reflexivity.
    + (* any other kind: kept, joined ON TRUE *)
      apply orb_false_iff in Eprod. destruct Eprod as [E1 E2].
      assert (Hne : h_none_eq c = true).
      { unfold none_dom in Hnd1. rewrite E1, E2 in Hnd1. rewrite !orb_false_r in Hnd1. exact Hnd1. }
      assert (Hnf' : flags_for k0 (impl_flags c true how) = true) by (destruct k0; try discriminate; exact Hnf).
      apply flags_for_spec in Hnf'. fold k' in Hnf'.
      destruct Hnf' as [Gk [Glo [Gcr [Gfu Gri]]]]. rewrite Hnr in Gri.
      assert (Hspec : forall out : unit, sp_join (sp_of s) R rbase OnNone how
                      = Some (mkSp (s_tabs s ++ [R]) (s_bases s ++ [rbase]) (s_joins s ++ [(k', Some (ELit (VBool true)))])
                                   (if is_semi_anti k' then s_sel s else s_sel s ++ map (fun n => (ECol (qn j n), n)) (cols R)) [])).
      { intros _. unfold sp_join, sp_of. simpl. rewrite Hk0, Ewh. fold j. unfold k' in *.
        destruct k0; cbn [jkind_eqb] in E1, E2, Hnr; try discriminate; reflexivity. }
      destruct (is_semi_anti k') eqn:Esa.
      * destruct (sel_left_only s R Hcanon) as [S1 S2].
        eexists. split; [|split].
        -- unfold m_join. rewrite Gk, Gcr, Glo, Gri, Hne. fold j. rewrite Hfr', Hff.
           unfold order_of. rewrite S1. reflexivity.
        -- rewrite (Hspec tt). unfold sp_of. simpl. rewrite Ewh. reflexivity.
        -- intros _. unfold inv. simpl. rewrite S2, Ewh. reflexivity.
      * simpl in Hcomp. destruct (sel_all s R Hcanon Hnd Hcomp) as [S1 S2].
        eexists. split; [|split].
        -- unfold m_join. rewrite Gk, Gcr, Glo, Gri, Hne. fold j. rewrite Hfr', Hff.
           unfold order_of. rewrite S1. reflexivity.
        -- rewrite (Hspec tt). unfold sp_of. simpl. rewrite Ewh. reflexivity.
        -- intros _. unfold inv. simpl. rewrite S2, Ewh. reflexivity.
  - (* names *)
    apply andb_true_iff in Hon. destruct Hon as [Hon Hcomp].
    apply andb_true_iff in Hon. destruct Hon as [Hon Hkeys].
    apply andb_true_iff in Hon. destruct Hon as [Hne Hndk].
    destruct (keys_resolve s R ks Hcanon Hkeys) as [pairs [P1 [P2 [P3 P4]]]].
    assert (Hcnt := keys_counts s R ks Hkeys).
    assert (D1 : drop_keys ks (s_sel s) = filter (fun it : expr * string => negb (smem (snd it) ks)) (s_sel s)).
    { apply drop_keys_filter; [exact Hndk|]. intros k Hk. apply (Hcnt k Hk). }
    assert (D2 : drop_keys ks (map (fun n => (ECol (qn j n), n)) (cols R))
                 = filter (fun it : expr * string => negb (smem (snd it) ks)) (map (fun n => (ECol (qn j n), n)) (cols R))).
    { apply drop_keys_filter; [exact Hndk|]. intros k Hk. rewrite names_rout. apply (Hcnt k Hk). }
    assert (Hrest := fun seen0 H0 => sel_rest s R Hcanon Hnd ks (is_semi_anti k') seen0 H0).
    assert (Hc' : is_semi_anti k' = true \/
                  forallb (complete s) (filter (fun n => negb (smem n ks)) (cols R)) = true).
    { apply orb_true_iff in Hcomp. exact Hcomp. }
    destruct (jkind_eqb k' JFull) eqn:Efull.
    + (* full outer: COALESCE items, then the rest with nothing seen *)
      destruct (Hrest [] (fun n _ => eq_refl) Hc') as [R1 R2].
      eexists. split; [|split].
      * unfold m_join. cbn match. rewrite Fk, Fcr, Flo, Ffu, Fri. fold j. rewrite Hfr', Hff.
        rewrite P1. unfold order_of.
        rewrite (resolve_iexpr_prefix _ (fun p => ECoalesce (ECol (qn (fst p) (snd p))) (ECol (qn j (snd p)))) snd).
        rewrite R1. reflexivity.
      * unfold sp_join, sp_of. simpl. rewrite Hk0. fold k'. fold j. rewrite P4, D1, D2.
        apply jkind_eqb_eq in Efull. rewrite Efull. simpl.
        rewrite conj_keys, map_map. simpl. rewrite Ewh.
        rewrite Efull in *. simpl in *. reflexivity.
      * intro Hk. unfold keeps_inv in Hk. rewrite Hkind, Efull in Hk. discriminate.
    + destruct (resolve_keys s R pairs P3 pairs [] (fun p H => H)) as [K1 K2].
      { rewrite P2. exact Hndk. }
      { intros; reflexivity. }
      destruct (Hrest (rev ks ++ []) ) as [R1 R2].
      { intros n Hn. rewrite app_nil_r. rewrite count_str_rev. apply count_str_notin. exact Hn. }
      { exact Hc'. }
      eexists. split; [|split].
      * unfold m_join. cbn match. rewrite Fk, Fcr, Flo, Ffu, Fri. fold j. rewrite Hfr', Hff.
        rewrite P1. unfold order_of.
        replace (map (fun p : nat * string => IName (snd p)) pairs) with (map IName (map snd pairs)) by (rewrite map_map; reflexivity).
        rewrite resolve_items_app, K1. rewrite P2. rewrite R1. reflexivity.
      * unfold sp_join, sp_of. simpl. rewrite Hk0. fold k'. fold j. rewrite P4, D1, D2.
        rewrite conj_keys, map_map. simpl. rewrite Ewh.
        destruct k'; try discriminate; reflexivity.
      * intros _. unfold inv. simpl. rewrite Ewh, andb_true_r, andb_true_r.
        apply canonb_app; [exact K2|].
        rewrite map_map. simpl.
        replace (map (fun x : nat * string => snd x) pairs) with ks by (rewrite <- P2; reflexivity).
        rewrite app_nil_r in *. exact R2.
  - (* expressions *)
    apply andb_true_iff in Hon. destruct Hon as [Hon Hcomp].
    apply andb_true_iff in Hon. destruct Hon as [Hne Hrefs].
    rewrite forallb_forall in Hrefs.
    set (out' := s_sel s ++ map (fun n => (ECol (qn j n), n)) (cols R)) in *.
    set (valid := ref_valid (s_tabs s ++ [R]) (s_bases s ++ [rbase]) out') in *.
    assert (Hes :
      map_opt (resolve_uexpr (norm_on_ref (s_ctes s) octes (negb (Nat.eqb j 1)) j sb (indexed (s_tabs s ++ [R])) j)) es
      = map_opt (sp_uexpr valid out') es).
    { apply map_opt_ext_in. intros e He. apply on_uexpr_ok. apply Hrefs. exact He. }
    (* the conditions resolve (no bare names): the result of map_opt is Some *)
    assert (Hsome : exists es', map_opt (sp_uexpr valid out') es = Some es').
    { clear Hes Hne. induction es as [|e es IH]; [exists []; reflexivity|].
      assert (He : exists e', sp_uexpr valid out' e = Some e').
      { assert (Hd := Hrefs e (or_introl eq_refl)). clear IH Hrefs.
        induction e as [r|v|o a IHa b IHb|a IHa|a IHa]; simpl in *.
        - apply andb_true_iff in Hd. destruct Hd as [Hd Hv].
          assert (Hv' : valid r = true) by exact Hv. rewrite Hv'.
          destruct r; [discriminate| |]; eexists; reflexivity.
        - eexists; reflexivity.
        - apply andb_true_iff in Hd. destruct Hd as [H1 H2].
          destruct (IHa H1) as [x ->]. destruct (IHb H2) as [y ->]. eexists; reflexivity.
        - destruct (IHa Hd) as [x ->]. eexists; reflexivity.
        - destruct (IHa Hd) as [x ->]. eexists; reflexivity. }
      destruct He as [e' He]. destruct IH as [es' IH]; [intros; apply Hrefs; right; assumption|].
      exists (e' :: es'). simpl. rewrite He, IH. reflexivity. }
    destruct Hsome as [es' Hes'].
    destruct (is_semi_anti k') eqn:Esa.
    + destruct (sel_left_only s R Hcanon) as [S1 S2].
      eexists. split; [|split].
      * unfold m_join. cbn match. rewrite Fk, Fcr, Flo, Fri. fold j. rewrite Hfr', Hff.
        rewrite Hes, Hes'.
        unfold order_of. rewrite S1. reflexivity.
      * unfold sp_join, sp_of. simpl. rewrite Hk0. fold k'. fold j. fold out'. fold valid. rewrite Hes', Esa, Ewh. reflexivity.
      * intros _. unfold inv. simpl. rewrite S2, Ewh. reflexivity.
    + simpl in Hcomp. destruct (sel_all s R Hcanon Hnd Hcomp) as [S1 S2].
      eexists. split; [|split].
      * unfold m_join. cbn match. rewrite Fk, Fcr, Flo, Fri. fold j. rewrite Hfr', Hff.
        rewrite Hes, Hes'.
        unfold order_of. rewrite S1. reflexivity.
      * unfold sp_join, sp_of. simpl. rewrite Hk0. fold k'. fold j. fold out'. fold valid. rewrite Hes', Esa, Ewh. reflexivity.
      * intros _. unfold inv. simpl. unfold out', j in *. rewrite S2, Ewh. reflexivity.
Qed.

(** * chains of joins, by induction *)
Definition jstep_dom (c : howcfg) (s : st) (x : jstep) : bool :=
  step_dom c s (j_right x) (j_base x) (j_octes x) (j_on x) (j_how x) (j_same_branch x) (j_stale x).

(** the domain of a chain is checked along the run: every step in [step_dom] of the state it starts from, and every
    step but the last one leaves a canonical list behind *)
Fixpoint chain_dom (c : howcfg) (s : st) (steps : list jstep) : bool :=
  match steps with
  | [] => true
  | x :: r =>
      jstep_dom c s x &&
      match r with
      | [] => true
      | _ => keeps_inv (j_on x) (j_how x) &&
             match m_join c s (j_right x) (j_base x) (j_octes x) (j_on x) (j_how x) (j_same_branch x) (j_stale x) with
             | Some s' => chain_dom c s' r
             | None => false
             end
      end
  end.

Definition all_keep_inv (steps : list jstep) : bool := forallb (fun x => keeps_inv (j_on x) (j_how x)) steps.

Theorem join_chain_ok c : cfg_how_ok c = true -> cfg_none_ok c = true ->
  forall steps s, inv s = true -> chain_dom c s steps = true ->
  exists s', m_chain c s steps = Some s' /\ sp_chain (sp_of s) steps = Some (sp_of s')
             /\ (all_keep_inv steps = true -> inv s' = true).
Proof.
  intros Hc Hn. induction steps as [|x r IH]; intros s Hinv Hd.
  - exists s. repeat split; auto.
  - simpl in Hd. apply andb_true_iff in Hd. destruct Hd as [Hx Hr].
    destruct (join_step_ok c s _ _ _ _ _ _ _ Hc Hn Hinv Hx) as [s1 [M1 [S1 I1]]].
    simpl. rewrite M1, S1.
    destruct r as [|y r'].
    + exists s1. repeat split; try reflexivity. intro Hk. apply I1.
      simpl in Hk. apply andb_true_iff in Hk. tauto.
    + apply andb_true_iff in Hr. destruct Hr as [Hk Hr]. rewrite M1 in Hr.
      destruct (IH s1 (I1 Hk) Hr) as [s' [M [S I]]].
      exists s'. repeat split; auto. intro Hall. apply I.
      unfold all_keep_inv in *. simpl in Hall. apply andb_true_iff in Hall. tauto.
Qed.

(** hence the column list AND the rows of the whole chain are PySpark's, whatever the tables contain *)
Corollary run_chain_ok c : cfg_how_ok c = true -> cfg_none_ok c = true ->
  forall L lbase lctes steps,
    nodupb (cols L) = true ->
    chain_dom c (init_st L lbase lctes) steps = true ->
    m_run c L lbase lctes steps FNone = sp_run L lbase steps FNone.
Proof.
  intros Hc Hn L lbase lctes steps Hnd Hd.
  assert (Hinv : inv (init_st L lbase lctes) = true).
  { clear Hd. unfold inv, init_st. simpl. rewrite andb_true_r, andb_true_r.
    unfold indexed. simpl. unfold init_sel.
    assert (G : forall l seen, nodupb l = true -> (forall n, In n l -> In n (cols L)) ->
                (forall n, In n l -> count_str n seen = O) ->
                canonb [(0%nat, cols L)] seen (map (fun n => (ECol (qn 0 n), n)) l) = true).
    { induction l as [|n l IHl]; intros seen Hl Hin Hs; simpl; [reflexivity|].
      simpl in Hl. apply andb_true_iff in Hl. destruct Hl as [Hl1 Hl2]. apply negb_true_iff in Hl1.
      rewrite tabs_with_one. assert (Hm : mem n (cols L) = true) by (apply smem_In, Hin; left; reflexivity).
      rewrite Hm, (Hs n (or_introl eq_refl)). simpl. rewrite String.eqb_refl. simpl.
      apply IHl; [exact Hl2 | intros; apply Hin; right; assumption |].
      intros m Hm'. simpl. destruct (String.eqb n m) eqn:E.
      - apply String.eqb_eq in E. subst. assert (smem m l = true) by (apply smem_In; exact Hm'). congruence.
      - simpl. apply Hs. right; exact Hm'. }
    apply G; auto. }
  destruct (join_chain_ok c Hc Hn steps _ Hinv Hd) as [s' [M [S _]]].
  unfold m_run, sp_run. rewrite M. change (init_sp L lbase) with (sp_of (init_st L lbase lctes)). rewrite S.
  simpl. symmetry. apply eval_sp_of.
Qed.

(** * rows: the result of a single join IS the SQL join of the two inputs (C02.Join.join) under the 3-valued ON,
    seen through the select list *)
Theorem single_join_rows L R k c sel fr :
  eval_core [L; R] [(k, c)] [] sel = Some fr ->
  let lc := map (qn 0) (cols L) in
  let rc := map (qn 1) (cols R) in
  let wc := if is_semi_anti k then lc else lc ++ rc in
  cols fr = map snd sel /\
  rows fr = map (proj wc sel) (join (on_match lc rc c) (List.length lc) (List.length rc) k (rows L) (rows R)).
Proof.
  intros H lc rc wc. unfold eval_core, eval_joins in H. fold lc rc in H.
  destruct (match c with Some e => cols_in (lc ++ rc) e | None => true end); [|discriminate].
  fold wc in H.
  destruct (forallb (cols_in wc) [] && forallb (fun it : expr * string => cols_in wc (fst it)) sel); [|discriminate].
  inversion H; subst fr; clear H. simpl. split; [reflexivity|].
  rewrite filter_true by reflexivity. reflexivity.
Qed.

Lemma m_join_shape c s R rbase octes on how sb stale s' :
  m_join c s R rbase octes on how sb stale = Some s' ->
  s_tabs s' = s_tabs s ++ [R] /\ s_where s' = s_where s /\ exists k cond, s_joins s' = s_joins s ++ [(k, cond)].
Proof.
  unfold m_join. intro E.
  destruct (f_kind _) as [k|]; [|discriminate].
  destruct (f_cross _).
  - inversion E; simpl. repeat split; eauto.
  - destruct on.
    + destruct (h_none_eq c); [|discriminate]. inversion E; simpl. repeat split; eauto.
    + destruct (map_opt _ _); [|discriminate]. inversion E; simpl. repeat split; eauto.
    + destruct (map_opt _ _); [|discriminate]. inversion E; simpl. repeat split; eauto.
Qed.

(** the implementation's single join, inside the domain: PySpark's columns, and rows = projection of the SQL join *)
Corollary single_join_ok c : cfg_how_ok c = true -> cfg_none_ok c = true ->
  forall L lbase lctes x,
    nodupb (cols L) = true -> jstep_dom c (init_st L lbase lctes) x = true ->
    m_run c L lbase lctes [x] FNone = sp_run L lbase [x] FNone
    /\ forall fr, m_run c L lbase lctes [x] FNone = Some fr ->
         exists k cond sel,
           cols fr = map snd sel /\
           rows fr = map (proj (if is_semi_anti k then map (qn 0) (cols L) else map (qn 0) (cols L) ++ map (qn 1) (cols (j_right x))) sel)
                         (join (on_match (map (qn 0) (cols L)) (map (qn 1) (cols (j_right x))) cond)
                               (List.length (cols L)) (List.length (cols (j_right x))) k (rows L) (rows (j_right x))).
Proof.
  intros Hc Hn L lbase lctes x Hnd Hd.
  assert (Hcd : chain_dom c (init_st L lbase lctes) [x] = true) by (simpl; rewrite Hd; reflexivity).
  split; [apply run_chain_ok; assumption|].
  intros fr Hfr. unfold m_run in Hfr. cbn [m_chain] in Hfr.
  destruct (m_join c (init_st L lbase lctes) (j_right x) (j_base x) (j_octes x) (j_on x) (j_how x) (j_same_branch x) (j_stale x)) as [s'|] eqn:E; [|discriminate].
  destruct (m_join_shape _ _ _ _ _ _ _ _ _ _ E) as [T [W [k [cond J]]]].
  cbn [m_fin] in Hfr. unfold eval_st in Hfr. rewrite T, W, J in Hfr. cbn [init_st s_tabs s_joins s_where app] in Hfr.
  exists k, cond, (s_sel s').
  destruct (single_join_rows _ _ _ _ _ _ Hfr) as [H1 H2]. rewrite !map_length in H2. split; assumption.
Qed.

(** * select / where after the joins *)
Lemma canon_named_single' tcs k : forall sel seen,
  canonb tcs seen sel = true -> count_str k seen = O -> count_str k (map snd sel) = 1%nat ->
  exists i, hd_error (tabs_with tcs k) = Some i /\ named k sel = [(ECol (qn i k), k)].
Proof.
  induction sel as [|[e n] sel IH]; intros seen Hc Hs H1; simpl in *; [discriminate|].
  destruct (nth_error (tabs_with tcs n) (count_str n seen)) as [i'|] eqn:E; [|discriminate].
  apply andb_true_iff in Hc. destruct Hc as [He Hr]. apply expr_eqb_eq in He. subst e.
  unfold named. simpl. destruct (String.eqb n k) eqn:Enk.
  - apply String.eqb_eq in Enk. subst n. rewrite Hs in E. exists i'. split.
    + destruct (tabs_with tcs k); simpl in *; [discriminate | exact E].
    + f_equal. apply named_none. lia.
  - apply (IH (n :: seen)); auto. simpl. rewrite Enk. simpl. exact Hs.
Qed.

Definition fin_ref_dom (s : st) (r : ref) : bool :=
  let hj := negb (Nat.eqb (List.length (s_tabs s)) 1) in
  match r with
  | RName n => Nat.eqb (count_str n (map snd (s_sel s))) 1
  | RDf t b _ _ => ref_valid (s_tabs s) (s_bases s) (s_sel s) r
                   && negb (hj && first_two_same_branch (s_ctes s)) && is_tab (denotes (s_ctes s) (carries_id b)) t
  | RAlias t sq _ => ref_valid (s_tabs s) (s_bases s) (s_sel s) r && is_tab (denotes (s_ctes s) (carries_seq sq)) t
  end.

Lemma after_uexpr_ok s e :
  canonb (indexed (s_tabs s)) [] (s_sel s) = true ->
  uexpr_dom (fin_ref_dom s) e = true ->
  exists e',
    resolve_uexpr (norm_after_ref (s_ctes s) (negb (Nat.eqb (List.length (s_tabs s)) 1)) (List.length (s_tabs s))
                                  (indexed (s_tabs s))) e = Some e'
    /\ sp_uexpr (ref_valid (s_tabs s) (s_bases s) (s_sel s)) (s_sel s) e = Some e'.
Proof.
  intro Hc. induction e as [r|v|o a IHa b IHb|a IHa|a IHa]; simpl; intro H.
  - destruct r as [n|t b uo n|t sq n]; simpl in H.
    + apply Nat.eqb_eq in H.
      destruct (canon_named_single' _ n _ [] Hc eq_refl H) as [i [Hh Hn]].
      unfold norm_after_ref. simpl.
      assert (Hp : pick (tabs_with (indexed (s_tabs s)) n) 0 = Some i).
      { apply pick_nth. destruct (tabs_with (indexed (s_tabs s)) n); simpl in *; [discriminate | exact Hh]. }
      rewrite Hp. exists (ECol (qn i n)). rewrite Hn. split; reflexivity.
    + apply andb_true_iff in H. destruct H as [H H3].
      apply andb_true_iff in H. destruct H as [Hv H2]. apply negb_true_iff in H2.
      unfold norm_after_ref, norm_ref. rewrite H2.
      change (fun c => Nat.eqb (cm_branch c) b || Nat.eqb (cm_seq c) b) with (carries_id b).
      unfold denotes in H3. destruct (find (carries_id b) (rev (s_ctes s))) as [c0|]; simpl in H3; [|discriminate].
      unfold cte_table. destruct (cm_tab c0) as [t'|]; [|discriminate]. apply Nat.eqb_eq in H3. subst t'.
      exists (ECol (qn t n)). split; [reflexivity|]. cbn [ref_valid]. rewrite Hv. reflexivity.
    + apply andb_true_iff in H. destruct H as [Hv H3].
      unfold norm_after_ref, norm_ref.
      change (fun c => nat_mem (cm_seq c) sq) with (carries_seq sq).
      unfold denotes in H3. destruct (find (carries_seq sq) (rev (s_ctes s))) as [c0|]; simpl in H3; [|discriminate].
      unfold cte_table. destruct (cm_tab c0) as [t'|]; [|discriminate]. apply Nat.eqb_eq in H3. subst t'.
      exists (ECol (qn t n)). split; [reflexivity|]. cbn [ref_valid]. rewrite Hv. reflexivity.
  - eexists; split; reflexivity.
  - apply andb_true_iff in H. destruct H as [H1 H2].
    destruct (IHa H1) as [x [X1 X2]]. destruct (IHb H2) as [y [Y1 Y2]].
    rewrite X1, X2, Y1, Y2. eexists; split; reflexivity.
  - destruct (IHa H) as [x [X1 X2]]. rewrite X1, X2. eexists; split; reflexivity.
  - destruct (IHa H) as [x [X1 X2]]. rewrite X1, X2. eexists; split; reflexivity.
Qed.

(** bare names selected on their own must be pairwise different (the implementation counts their occurrences) *)
Definition bare_names (items : list (uexpr * string)) : list string :=
  flat_map (fun it => match fst it with UCol (RName n) => [n] | _ => [] end) items.

Definition fin_dom (s : st) (f : fin) : bool :=
  match f with
  | FNone => true
  | FWhere e => uexpr_dom (fin_ref_dom s) e
  | FSelect items => forallb (fun it => uexpr_dom (fin_ref_dom s) (fst it)) items && nodupb (bare_names items)
  | FRename _ _ => false
  end.

Lemma select_items_ok s :
  canonb (indexed (s_tabs s)) [] (s_sel s) = true ->
  let f := norm_after_ref (s_ctes s) (negb (Nat.eqb (List.length (s_tabs s)) 1)) (List.length (s_tabs s)) (indexed (s_tabs s)) in
  let valid := ref_valid (s_tabs s) (s_bases s) (s_sel s) in
  forall items seen,
    forallb (fun it => uexpr_dom (fin_ref_dom s) (fst it)) items = true ->
    nodupb (bare_names items) = true ->
    (forall n, In n (bare_names items) -> count_str n seen = O) ->
    exists its out,
      map_opt (m_item f) items = Some its
      /\ map_opt (sp_item valid (s_sel s)) items = Some out
      /\ combine (map fst (resolve_items (indexed (s_tabs s)) seen its)) (map snd items) = out.
Proof.
  intros Hc f valid. induction items as [|[e o] items IH]; intros seen Hd Hn Hs.
  - exists [], []. repeat split; reflexivity.
  - simpl in Hd. apply andb_true_iff in Hd. destruct Hd as [He Hd].
    destruct (after_uexpr_ok s e Hc He) as [e' [M S]]. fold f in M. fold valid in S.
    assert (Hsp : sp_item valid (s_sel s) (e, o) = Some (e', o)) by (unfold sp_item; simpl; rewrite S; reflexivity).
    destruct (match e with UCol (RName _) => true | _ => false end) eqn:Ebare.
    + (* a bare name on its own *)
      destruct e as [[n|t b0 uo n|t sq n]|v|op a b|a|a]; try discriminate.
      simpl in Hn. apply andb_true_iff in Hn. destruct Hn as [Hn1 Hn2]. apply negb_true_iff in Hn1.
      destruct (IH (n :: seen) Hd Hn2) as [its [out [I1 [I2 I3]]]].
      { intros m Hm. simpl. destruct (String.eqb n m) eqn:E.
        - apply String.eqb_eq in E. subst. assert (smem m (bare_names items) = true) by (apply smem_In; exact Hm). congruence.
        - simpl. apply Hs. simpl. right. exact Hm. }
      exists (IName n :: its), ((e', o) :: out).
      cbn [map_opt]. rewrite Hsp, I1, I2. unfold m_item at 1. cbn [fst].
      split; [reflexivity|]. split; [reflexivity|].
      cbn [resolve_items map fst snd combine]. f_equal; [|exact I3].
      unfold resolve_name. rewrite (Hs n (or_introl eq_refl)).
      simpl in M. unfold f, norm_after_ref in M. simpl in M.
      destruct (pick (tabs_with (indexed (s_tabs s)) n) 0) as [i|]; [|discriminate].
      inversion M. reflexivity.
    + assert (Hm : m_item f (e, o) = Some (IExpr e' o)).
      { unfold m_item. cbn [fst snd]. destruct e as [[n|t b0 uo n|t sq n]|v|op a b|a|a]; try discriminate; rewrite M; reflexivity. }
      assert (Hb : bare_names ((e, o) :: items) = bare_names items).
      { unfold bare_names. cbn [flat_map fst]. destruct e as [[n|t b0 uo n|t sq n]|v|op a b|a|a]; try discriminate; reflexivity. }
      rewrite Hb in Hn, Hs.
      destruct (IH seen Hd Hn Hs) as [its [out [I1 [I2 I3]]]].
      exists (IExpr e' o :: its), ((e', o) :: out).
      cbn [map_opt]. rewrite Hsp, Hm, I1, I2.
      repeat split; try reflexivity.
      cbn [resolve_items map fst snd combine]. f_equal. exact I3.
Qed.

Theorem fin_ok s f :
  inv s = true -> fin_dom s f = true ->
  exists s', m_fin s f = Some s' /\ sp_fin (sp_of s) f = Some (sp_of s').
Proof.
  intros Hinv Hd. unfold inv in Hinv.
  apply andb_true_iff in Hinv. destruct Hinv as [Hinv Hwh].
  apply andb_true_iff in Hinv. destruct Hinv as [Hcanon Hfr]. apply negb_true_iff in Hfr.
  destruct f as [|e|items|old new]; simpl in *; [| | |discriminate].
  - exists s. split; reflexivity.
  - destruct (after_uexpr_ok s e Hcanon Hd) as [e' [M S]].
    unfold m_where, sp_where, sp_of. simpl. unfold order_of. rewrite Hfr, M, S. eexists. split; reflexivity.
  - apply andb_true_iff in Hd. destruct Hd as [Hd Hn].
    destruct (select_items_ok s Hcanon items [] Hd Hn (fun _ _ => eq_refl)) as [its [out [I1 [I2 I3]]]].
    unfold m_select, sp_select, sp_of. cbn [s_tabs s_bases s_joins s_ctes s_first_right s_sel s_where p_tabs p_bases p_joins p_out p_where].
    unfold order_of. rewrite Hfr, I1, I2, I3. eexists. split; reflexivity.
Qed.

(** * whole programs: a chain of joins followed by an optional select / where *)
Lemma inv_init L lbase lctes : nodupb (cols L) = true -> inv (init_st L lbase lctes) = true.
Proof.
  intro Hnd. unfold inv, init_st. simpl. rewrite andb_true_r, andb_true_r.
  unfold indexed. simpl. unfold init_sel.
  assert (G : forall l seen, nodupb l = true -> (forall n, In n l -> In n (cols L)) ->
              (forall n, In n l -> count_str n seen = O) ->
              canonb [(0%nat, cols L)] seen (map (fun n => (ECol (qn 0 n), n)) l) = true).
  { induction l as [|n l IHl]; intros seen Hl Hin Hs; simpl; [reflexivity|].
    simpl in Hl. apply andb_true_iff in Hl. destruct Hl as [Hl1 Hl2]. apply negb_true_iff in Hl1.
    rewrite tabs_with_one. assert (Hm : mem n (cols L) = true) by (apply smem_In, Hin; left; reflexivity).
    rewrite Hm, (Hs n (or_introl eq_refl)). simpl. rewrite String.eqb_refl. simpl.
    apply IHl; [exact Hl2 | intros; apply Hin; right; assumption |].
    intros m Hm'. simpl. destruct (String.eqb n m) eqn:E.
    - apply String.eqb_eq in E. subst. assert (smem m l = true) by (apply smem_In; exact Hm'). congruence.
    - simpl. apply Hs. right; exact Hm'. }
  apply G; auto.
Qed.

Definition prog_dom (c : howcfg) (L : frame) (lbase : nat) (lctes : list cmeta) (steps : list jstep) (f : fin) : bool :=
  nodupb (cols L) && chain_dom c (init_st L lbase lctes) steps &&
  match f with
  | FNone => true
  | _ => all_keep_inv steps &&
         match m_chain c (init_st L lbase lctes) steps with Some s => fin_dom s f | None => false end
  end.

Theorem run_ok c : cfg_how_ok c = true -> cfg_none_ok c = true ->
  forall L lbase lctes steps f,
    prog_dom c L lbase lctes steps f = true ->
    m_run c L lbase lctes steps f = sp_run L lbase steps f.
Proof.
  intros Hc Hn L lbase lctes steps f Hd. unfold prog_dom in Hd.
  apply andb_true_iff in Hd. destruct Hd as [Hd Hf].
  apply andb_true_iff in Hd. destruct Hd as [Hnd Hd].
  destruct (join_chain_ok c Hc Hn steps _ (inv_init L lbase lctes Hnd) Hd) as [s' [M [S I]]].
  unfold m_run, sp_run. rewrite M. change (init_sp L lbase) with (sp_of (init_st L lbase lctes)). rewrite S.
  destruct f as [|e|items|old new]; [| | |apply andb_true_iff in Hf; destruct Hf as [_ Hf]; rewrite M in Hf; discriminate].
  - simpl. symmetry. apply eval_sp_of.
  - apply andb_true_iff in Hf. destruct Hf as [Hk Hf]. rewrite M in Hf.
    destruct (fin_ok s' (FWhere e) (I Hk) Hf) as [s2 [M2 S2]]. rewrite M2, S2. symmetry. apply eval_sp_of.
  - apply andb_true_iff in Hf. destruct Hf as [Hk Hf]. rewrite M in Hf.
    destruct (fin_ok s' (FSelect items) (I Hk) Hf) as [s2 [M2 S2]]. rewrite M2, S2. symmetry. apply eval_sp_of.
Qed.

(** * right outer join (as the first join): right as long as no other column name occurs on both sides.
    The resolution runs right-to-left; the key then is the right side's (as in PySpark), and a name that only one table has
    can only go to that table. *)
Lemma pick_single i p : pick [i] p = Some i.
Proof. unfold pick. simpl. rewrite Nat.min_0_r. reflexivity. Qed.

Lemma resolve_single tcs (g : string -> nat) : forall names seen,
  (forall n, In n names -> tabs_with tcs n = [g n]) ->
  resolve_items tcs seen (map IName names) = map (fun n => (ECol (qn (g n) n), n)) names.
Proof.
  induction names as [|n names IH]; intros seen H; simpl; [reflexivity|].
  unfold resolve_name. rewrite (H n (or_introl eq_refl)), pick_single. f_equal.
  apply IH. intros m Hm. apply H. right; exact Hm.
Qed.

Lemma map_ext_in' {A B} (f g : A -> B) l : (forall x, In x l -> f x = g x) -> map f l = map g l.
Proof. apply map_ext_in. Qed.

Definition right_dom (c : howcfg) (L : frame) (lbase : nat) (lctes : list cmeta) (x : jstep) : bool :=
  let R := j_right x in
  let out' := init_sel (cols L) ++ map (fun n => (ECol (qn 1 n), n)) (cols R) in
  match j_stale x with None => true | Some _ => false end &&
  how_accepted c (j_how x) && jkind_eqb (kind_of_how (j_how x)) JRight && nodupb (cols L) && nodupb (cols R) &&
  match j_on x with
  | OnNone => false
  | OnNames ks =>
      negb (match ks with [] => true | _ => false end) && nodupb ks
      && forallb (fun k => mem k (cols L) && mem k (cols R)) ks
      && forallb (fun n => negb (mem n (cols L))) (filter (fun n => negb (smem n ks)) (cols R))
  | OnExprs es =>
      negb (match es with [] => true | _ => false end)
      && forallb (uexpr_dom (fun r => ref_dom lctes (j_octes x) false (j_same_branch x) r
                                      && ref_valid [L; R] [lbase; j_base x] out' r)) es
      && forallb (fun n => negb (mem n (cols L))) (cols R)
  end.

Lemma count_one_of_nodup n l : nodupb l = true -> mem n l = true -> count_str n l = 1%nat.
Proof. intros H1 H2. rewrite (count_str_nodup n l H1). rewrite <- mem_smem. rewrite H2. reflexivity. Qed.

Lemma named_init_sel k l : nodupb l = true -> mem k l = true ->
  named k (init_sel l) = [(ECol (qn 0 k), k)].
Proof.
  unfold named, init_sel. induction l as [|x l IH]; simpl; intros Hn Hm; [discriminate|].
  apply andb_true_iff in Hn. destruct Hn as [Hx Hn]. apply negb_true_iff in Hx.
  destruct (String.eqb x k) eqn:E.
  - apply String.eqb_eq in E. subst x. f_equal.
    assert (G : forall l', smem k l' = false -> filter (fun it : expr * string => String.eqb (snd it) k) (map (fun n => (ECol (qn 0 n), n)) l') = []).
    { induction l' as [|y l' IHl]; simpl; intro Hs; [reflexivity|].
      apply orb_false_iff in Hs. destruct Hs as [Hy Hs]. rewrite String.eqb_sym in Hy. rewrite Hy. auto. }
    apply G. exact Hx.
  - apply IH; [exact Hn|]. rewrite String.eqb_sym in E. simpl in Hm. unfold mem in *. simpl in Hm. rewrite E in Hm. exact Hm.
Qed.

Theorem right_join_first_ok c : cfg_how_ok c = true ->
  forall L lbase lctes x,
    right_dom c L lbase lctes x = true ->
    m_run c L lbase lctes [x] FNone = sp_run L lbase [x] FNone.
Proof.
  intros Hcfg L lbase lctes [R rbase octes on how sb stale] Hd. unfold right_dom in Hd. cbn [j_right j_how j_on j_octes j_same_branch j_base j_stale] in Hd.
  apply andb_true_iff in Hd. destruct Hd as [Hd Hon].
  apply andb_true_iff in Hd. destruct Hd as [Hd HndR].
  apply andb_true_iff in Hd. destruct Hd as [Hd HndL].
  apply andb_true_iff in Hd. destruct Hd as [Hd Hk].
  apply andb_true_iff in Hd. destruct Hd as [Hst Hdoc].
  destruct stale as [st0|]; [discriminate|]. clear Hst.
  destruct (accepted_kind c how Hcfg Hdoc) as [k0 [Hk0 Hflags]].
  assert (Hkind : kind_of_how how = match k0 with JCross => JInner | _ => k0 end).
  { unfold kind_of_how. rewrite Hk0. destruct k0; reflexivity. }
  apply flags_for_spec in Hflags. rewrite <- Hkind in Hflags. apply jkind_eqb_eq in Hk. rewrite Hk in Hflags.
  destruct Hflags as [Fk [Flo [Fcr [Ffu Fri]]]]. cbn [is_semi_anti jkind_eqb] in Flo, Ffu, Fri.
  assert (Hk0' : k0 = JRight) by (rewrite Hkind in Hk; destruct k0; try discriminate; reflexivity).
  set (lc := cols L) in *. set (rc := cols R) in *.
  assert (Hord : order_of true [L; R] = [(1%nat, rc); (0%nat, lc)]) by reflexivity.
  assert (Hidx : indexed [L] = [(0%nat, lc)]) by reflexivity.
  unfold m_run, sp_run. cbn [m_chain sp_chain j_right j_how j_on j_octes j_same_branch j_base j_stale].
  destruct on as [|ks|es]; [discriminate| |].
  - (* names *)
    apply andb_true_iff in Hon. destruct Hon as [Hon Hcol].
    apply andb_true_iff in Hon. destruct Hon as [Hon Hkeys].
    apply andb_true_iff in Hon. destruct Hon as [Hne Hndk].
    rewrite forallb_forall in Hkeys, Hcol.
    assert (KL : forall k, In k ks -> mem k lc = true) by (intros k H; destruct (proj1 (andb_true_iff _ _) (Hkeys k H)); assumption).
    assert (KR : forall k, In k ks -> mem k rc = true) by (intros k H; destruct (proj1 (andb_true_iff _ _) (Hkeys k H)); assumption).
    (* the key pairs *)
    assert (P1 : map_opt (fun k => option_map (fun i => (i, k)) (first_tab_with [(0%nat, lc)] k)) ks = Some (map (fun k => (0%nat, k)) ks)).
    { clear Hne Hndk Hkeys Hcol. induction ks as [|k ks IH]; [reflexivity|]. simpl.
      unfold first_tab_with at 1. rewrite tabs_with_one, (KL k (or_introl eq_refl)). simpl.
      rewrite IH; [reflexivity | intros; apply KL; right; assumption | intros; apply KR; right; assumption]. }
    assert (P4 : map_opt (fun key => match named key (init_sel lc), count_str key rc with
                                     | it :: _, 1%nat => Some (fst it, key) | _, _ => None end) ks
                 = Some (map (fun k => (ECol (qn 0 k), k)) ks)).
    { clear Hne Hndk Hkeys Hcol P1. induction ks as [|k ks IH]; [reflexivity|]. simpl.
      rewrite (named_init_sel k lc HndL (KL k (or_introl eq_refl))).
      rewrite (count_one_of_nodup k rc HndR (KR k (or_introl eq_refl))). simpl.
      rewrite IH; [reflexivity | intros; apply KL; right; assumption | intros; apply KR; right; assumption]. }
    (* model *)
    unfold m_join. cbn match. rewrite Fk, Fcr, Flo, Ffu, Fri.
    cbn [init_st s_tabs s_sel s_ctes s_joins s_where s_bases s_first_right List.length Nat.eqb negb app].
    change (indexed [L]) with [(0%nat, lc)]. rewrite P1. rewrite Hord.
    replace (map (fun p : nat * string => IName (snd p)) (map (fun k => (0%nat, k)) ks)) with (map IName ks)
      by (rewrite map_map; reflexivity).
    rewrite resolve_items_app.
    (* spec *)
    unfold sp_join. cbn [init_sp p_tabs p_out p_joins p_where p_bases List.length]. rewrite Hk0, Hk0'. fold lc rc.
    rewrite P4. cbn [is_semi_anti].
    rewrite (drop_keys_filter ks (init_sel lc) Hndk) by (intros k Hk'; unfold init_sel; rewrite names_rout; apply count_one_of_nodup; [exact HndL | apply KL; exact Hk']).
    rewrite (drop_keys_filter ks (map (fun n => (ECol (qn 1 n), n)) rc) Hndk) by (intros k Hk'; rewrite names_rout; apply count_one_of_nodup; [exact HndR | apply KR; exact Hk']).
    (* the three parts of the select list *)
    assert (S1 : resolve_items [(1%nat, rc); (0%nat, lc)] [] (map IName ks) = map (fun k => (ECol (qn 1 k), k)) ks).
    { assert (G : forall l seen, nodupb l = true -> (forall k, In k l -> In k ks) -> (forall k, In k l -> count_str k seen = O) ->
                  resolve_items [(1%nat, rc); (0%nat, lc)] seen (map IName l) = map (fun k => (ECol (qn 1 k), k)) l).
      { induction l as [|k l IHl]; intros seen Hl Hin Hs; simpl; [reflexivity|].
        simpl in Hl. apply andb_true_iff in Hl. destruct Hl as [Hl1 Hl2]. apply negb_true_iff in Hl1.
        unfold resolve_name, tabs_with. simpl. rewrite (KR k (Hin k (or_introl eq_refl))), (KL k (Hin k (or_introl eq_refl))).
        simpl. rewrite (Hs k (or_introl eq_refl)). simpl. f_equal.
        apply IHl; [exact Hl2 | intros; apply Hin; right; assumption|].
        intros m Hm. simpl. destruct (String.eqb k m) eqn:E.
        - apply String.eqb_eq in E. subst. assert (smem m l = true) by (apply smem_In; exact Hm). congruence.
        - simpl. apply Hs. right; exact Hm. }
      apply G; auto. }
    rewrite S1.
    set (g := fun n : string => if mem n lc then 0%nat else 1%nat).
    assert (S2 : forall seen, resolve_items [(1%nat, rc); (0%nat, lc)] seen
                   (map IName (filter (fun n => negb (smem n ks)) (map snd (init_sel lc) ++ rc)))
                 = filter (fun it : expr * string => negb (smem (snd it) ks)) (init_sel lc)
                   ++ filter (fun it : expr * string => negb (smem (snd it) ks)) (map (fun n => (ECol (qn 1 n), n)) rc)).
    { intro seen. rewrite (resolve_single _ g).
      - unfold init_sel. rewrite names_rout, filter_app, map_app. f_equal.
        + rewrite <- nonkey_map. apply map_ext_in. intros n Hn. apply filter_In in Hn. destruct Hn as [Hn _].
          unfold g. assert (Hm : mem n lc = true) by (apply smem_In; exact Hn). rewrite Hm. reflexivity.
        + rewrite <- nonkey_map. apply map_ext_in. intros n Hn.
          assert (Hc := Hcol n Hn). apply negb_true_iff in Hc. unfold g. rewrite Hc. reflexivity.
      - intros n Hn. apply filter_In in Hn. destruct Hn as [Hn Hnk]. apply negb_true_iff in Hnk.
        unfold init_sel in Hn. rewrite names_rout in Hn. unfold tabs_with, g. simpl.
        apply in_app_or in Hn. destruct Hn as [Hn|Hn].
        + assert (Hm : mem n lc = true) by (apply smem_In; exact Hn). rewrite Hm.
          destruct (mem n rc) eqn:Er; [|reflexivity].
          (* n in both sides and not a key: excluded *)
          assert (Hin : In n (filter (fun n0 => negb (smem n0 ks)) rc)).
          { apply filter_In. split; [apply smem_In; exact Er | rewrite Hnk; reflexivity]. }
          assert (Hc := Hcol n Hin). rewrite Hm in Hc. discriminate.
        + assert (Hin : In n (filter (fun n0 => negb (smem n0 ks)) rc)).
          { apply filter_In. split; [exact Hn | rewrite Hnk; reflexivity]. }
          assert (Hc := Hcol n Hin). apply negb_true_iff in Hc. rewrite Hc.
          assert (Hm : mem n rc = true) by (apply smem_In; exact Hn). rewrite Hm. reflexivity. }
    rewrite S2. rewrite !map_map. cbn [fst snd app m_fin sp_fin]. unfold eval_st, eval_sp. reflexivity.
  - (* expressions *)
    apply andb_true_iff in Hon. destruct Hon as [Hon Hcol].
    apply andb_true_iff in Hon. destruct Hon as [Hne Hrefs].
    rewrite forallb_forall in Hrefs, Hcol.
    set (out' := init_sel lc ++ map (fun n => (ECol (qn 1 n), n)) rc) in *.
    set (valid := ref_valid [L; R] [lbase; rbase] out') in *.
    assert (Hes :
      map_opt (resolve_uexpr (norm_on_ref lctes octes false 1 sb (indexed [L; R]) 1)) es = map_opt (sp_uexpr valid out') es).
    { apply map_opt_ext_in. intros e He. apply on_uexpr_ok. apply Hrefs. exact He. }
    unfold m_join. cbn match. rewrite Fk, Fcr, Flo, Fri.
    cbn [init_st s_tabs s_sel s_ctes s_joins s_where s_bases s_first_right List.length Nat.eqb negb app].
    rewrite Hes.
    unfold sp_join. cbn [init_sp p_tabs p_out p_joins p_where p_bases List.length app]. rewrite Hk0, Hk0'. fold lc rc. fold out'. fold valid.
    destruct (map_opt (sp_uexpr valid out') es) as [es'|]; [|reflexivity].
    cbn [is_semi_anti]. rewrite Hord.
    set (g := fun n : string => if mem n lc then 0%nat else 1%nat).
    rewrite (resolve_single _ g).
    + unfold init_sel. rewrite names_rout, map_app.
      replace (map (fun n : string => (ECol (qn (g n) n), n)) lc) with (map (fun n => (ECol (qn 0 n), n)) lc).
      2:{ apply map_ext_in. intros n Hn. unfold g. assert (Hm : mem n lc = true) by (apply smem_In; exact Hn). rewrite Hm. reflexivity. }
      replace (map (fun n : string => (ECol (qn (g n) n), n)) rc) with (map (fun n => (ECol (qn 1 n), n)) rc).
      2:{ apply map_ext_in. intros n Hn. unfold g. assert (Hc := Hcol n Hn). apply negb_true_iff in Hc. rewrite Hc. reflexivity. }
      cbn [m_fin sp_fin]. unfold eval_st, eval_sp. reflexivity.
    + intros n Hn. unfold init_sel in Hn. rewrite names_rout in Hn. unfold tabs_with, g. simpl.
      apply in_app_or in Hn. destruct Hn as [Hn|Hn].
      * assert (Hm : mem n lc = true) by (apply smem_In; exact Hn). rewrite Hm.
        destruct (mem n rc) eqn:Er; [|reflexivity].
        assert (Hc := Hcol n (proj1 (smem_In n rc) Er)). rewrite Hm in Hc. discriminate.
      * assert (Hc := Hcol n Hn). apply negb_true_iff in Hc. rewrite Hc.
        assert (Hm : mem n rc = true) by (apply smem_In; exact Hn). rewrite Hm. reflexivity.
Qed.
