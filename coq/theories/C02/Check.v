(** C02 -- executable glue for the correspondence check (ties T2 and T3). *)
From SF Require Export C02.Proof.
Open Scope string_scope.
Open Scope list_scope.

(** what the harness exported from the sqlglot tree the implementation built: join kinds with their ON, WHERE, select list *)
Definition exported := (list jspec * list expr * list (expr * string))%type.

Record jcase := mkJCase {
  c_left : frame; c_lbase : nat; c_lctes : list cmeta; c_steps : list jstep; c_fin : fin;
  c_impl : option (list string * list row);     (* df.columns and collect(); None = one of them raised *)
  c_exported : option exported;
  c_twh : option (list (list expr));             (* exported: per FROM/JOIN table, every WHERE conjunct of the CTEs it is built from *)
  c_twh_exp : list (list expr) }.                (* the same, as the program says (the filters of each input DataFrame) *)

Definition strs_eqb (a b : list string) : bool :=
  Nat.eqb (List.length a) (List.length b) && forallb (fun p => String.eqb (fst p) (snd p)) (combine a b).
Definition res_eqb (a : option frame) (b : option (list string * list row)) : bool :=
  match a, b with
  | None, None => true
  | Some f, Some (cs, rs) => strs_eqb (cols f) cs && bag_eqb (rows f) rs
  | _, _ => false
  end.
Definition fr_eqb (a b : option frame) : bool :=
  match a, b with
  | None, None => true
  | Some f, Some g => strs_eqb (cols f) (cols g) && bag_eqb (rows f) (rows g)
  | _, _ => false
  end.

Definition list_eqb {A} (eqb : A -> A -> bool) (a b : list A) : bool :=
  Nat.eqb (List.length a) (List.length b) && forallb (fun p => eqb (fst p) (snd p)) (combine a b).
Definition oexpr_eqb (a b : option expr) : bool :=
  match a, b with Some x, Some y => expr_eqb x y | None, None => true | _, _ => false end.
Definition jspec_eqb (a b : jspec) : bool := jkind_eqb (fst a) (fst b) && oexpr_eqb (snd a) (snd b).
Definition item_eqb (a b : expr * string) : bool := expr_eqb (fst a) (fst b) && String.eqb (snd a) (snd b).

Definition model_state (c : howcfg) (k : jcase) : option st :=
  match m_chain c (init_st (c_left k) (c_lbase k) (c_lctes k)) (c_steps k) with
  | Some s => m_fin s (c_fin k)
  | None => None
  end.

(** T2: the tree the implementation built is the model's (all join kinds, ON conditions, WHERE conjuncts and select items
    syntactically equal) -- agreement for every content of the tables *)
Definition t2_ok (c : howcfg) (k : jcase) : bool :=
  match model_state c k, c_exported k with
  | Some s, Some (js, wh, sel) =>
      list_eqb jspec_eqb (s_joins s) js && list_eqb expr_eqb (s_where s) wh && list_eqb item_eqb (s_sel s) sel
      && match c_twh k with
         | Some l => list_eqb (list_eqb expr_eqb) l (c_twh_exp k)     (* merging the CTEs kept every input's filters *)
         | None => false
         end
  | _, _ => false
  end.

(** inside the domain of C02_partial (prog_dom) or of C02_right_join (a single right outer join without colliding names) *)
Definition in_domain (c : howcfg) (k : jcase) : bool :=
  prog_dom c (c_left k) (c_lbase k) (c_lctes k) (c_steps k) (c_fin k)
  || match c_steps k, c_fin k with
     | [x], FNone => right_dom c (c_left k) (c_lbase k) (c_lctes k) x
     | _, _ => false
     end.

Definition b2s (b : bool) : string := if b then "1" else "0".

(** impl=model | impl=spec | model=spec | in the theorem's domain | impl raised | model rejects | spec rejects | T2 *)
Definition check (c : howcfg) (k : jcase) : string :=
  let m := m_run c (c_left k) (c_lbase k) (c_lctes k) (c_steps k) (c_fin k) in
  let s := sp_run (c_left k) (c_lbase k) (c_steps k) (c_fin k) in
  b2s (res_eqb m (c_impl k)) ++ b2s (res_eqb s (c_impl k)) ++ b2s (fr_eqb m s) ++ b2s (in_domain c k)
  ++ b2s (match c_impl k with None => true | _ => false end)
  ++ b2s (match m with None => true | _ => false end) ++ b2s (match s with None => true | _ => false end)
  ++ b2s (t2_ok c k).

(** for the recorded PySpark answers: spec = recorded answer | spec rejects (the other flags are not computed) *)
Definition check_spec (k : jcase) : string :=
  let s := sp_run (c_left k) (c_lbase k) (c_steps k) (c_fin k) in
  "00" ++ b2s (res_eqb s (c_impl k)) ++ "0000" ++ b2s (match s with None => true | _ => false end).
