(** C02 -- SQL join semantics over bags of rows with a three-valued ON condition.

    A join is parametrised by the *match predicate* [m l r] = "the ON condition evaluates to TRUE on the
    pair" (UNKNOWN and FALSE both reject; see [on_match]) and by the widths of the two sides, which are
    needed to pad the missing side of an outer join with NULLs.  Seven kinds: inner, cross, left/right/full
    outer, left semi, left anti.  All theorems are for all inputs (all bags, all predicates). *)
From SF Require Export Base.Sort.
From Coq Require Import Permutation.
Open Scope Z_scope.

Inductive jkind := JInner | JCross | JLeft | JRight | JFull | JSemi | JAnti.

Definition jkind_eqb (a b : jkind) : bool :=
  match a, b with
  | JInner, JInner | JCross, JCross | JLeft, JLeft | JRight, JRight | JFull, JFull
  | JSemi, JSemi | JAnti, JAnti => true
  | _, _ => false
  end.
Lemma jkind_eqb_eq a b : jkind_eqb a b = true <-> a = b.
Proof. destruct a, b; simpl; split; intro H; try discriminate; reflexivity. Qed.

Definition all_jkinds := [JInner; JCross; JLeft; JRight; JFull; JSemi; JAnti].

Definition nulls (n : nat) : row := repeat VNull n.

Section Join.
  Variable m : row -> row -> bool.
  Variables nl nr : nat.

  Definition matches (l : row) (R : list row) : list row := filter (m l) R.
  Definition has_match (l : row) (R : list row) : bool := existsb (m l) R.
  Definition matched_r (L : list row) (r : row) : bool := existsb (fun l => m l r) L.

  Definition cross (L R : list row) : list row := flat_map (fun l => map (app l) R) L.
  Definition inner (L R : list row) : list row := flat_map (fun l => map (app l) (matches l R)) L.
  Definition left_one (R : list row) (l : row) : list row :=
    match matches l R with [] => [l ++ nulls nr] | ms => map (app l) ms end.
  Definition left (L R : list row) : list row := flat_map (left_one R) L.
  Definition pad_unmatched_l (L R : list row) : list row :=
    map (fun l => l ++ nulls nr) (filter (fun l => negb (has_match l R)) L).
  Definition pad_unmatched_r (L R : list row) : list row :=
    map (app (nulls nl)) (filter (fun r => negb (matched_r L r)) R).
  Definition right (L R : list row) : list row := inner L R ++ pad_unmatched_r L R.
  Definition full (L R : list row) : list row := left L R ++ pad_unmatched_r L R.
  Definition semi (L R : list row) : list row := filter (fun l => has_match l R) L.
  Definition anti (L R : list row) : list row := filter (fun l => negb (has_match l R)) L.

  Definition join (k : jkind) (L R : list row) : list row :=
    match k with
    | JInner => inner L R
    | JCross => cross L R
    | JLeft => left L R
    | JRight => right L R
    | JFull => full L R
    | JSemi => semi L R
    | JAnti => anti L R
    end.

  (** ** membership characterisations *)

  Lemma in_inner x L R :
    In x (inner L R) <-> exists l r, In l L /\ In r R /\ m l r = true /\ x = l ++ r.
  Proof.
    unfold inner, matches. rewrite in_flat_map. split.
    - intros [l [Hl Hx]]. apply in_map_iff in Hx. destruct Hx as [r [<- Hr]].
      apply filter_In in Hr. destruct Hr as [Hr Hm]. exists l, r. auto.
    - intros [l [r [Hl [Hr [Hm ->]]]]]. exists l. split; [exact Hl|].
      apply in_map. apply filter_In. auto.
  Qed.

  Lemma in_cross x L R : In x (cross L R) <-> exists l r, In l L /\ In r R /\ x = l ++ r.
  Proof.
    unfold cross. rewrite in_flat_map. split.
    - intros [l [Hl Hx]]. apply in_map_iff in Hx. destruct Hx as [r [<- Hr]]. exists l, r. auto.
    - intros [l [r [Hl [Hr ->]]]]. exists l. split; [exact Hl | apply in_map; exact Hr].
  Qed.

  Lemma has_match_true l R : has_match l R = true <-> exists r, In r R /\ m l r = true.
  Proof. unfold has_match. apply existsb_exists. Qed.

  Lemma has_match_false l R : has_match l R = false <-> forall r, In r R -> m l r = false.
  Proof.
    unfold has_match. split.
    - intros H r Hr. destruct (m l r) eqn:E; [|reflexivity].
      assert (existsb (m l) R = true) by (apply existsb_exists; eauto). congruence.
    - intro H. destruct (existsb (m l) R) eqn:E; [|reflexivity].
      apply existsb_exists in E. destruct E as [r [Hr Hm]]. rewrite (H r Hr) in Hm. discriminate.
  Qed.

  Lemma matches_nil_iff l R : matches l R = [] <-> has_match l R = false.
  Proof.
    unfold matches, has_match. induction R as [|r R IH]; simpl; [tauto|].
    destruct (m l r); simpl; [split; discriminate | exact IH].
  Qed.

  (** semi/anti: a left row is kept iff it has (no) partner; never duplicated, never altered *)
  Lemma in_semi l L R : In l (semi L R) <-> In l L /\ exists r, In r R /\ m l r = true.
  Proof. unfold semi. rewrite filter_In, has_match_true. tauto. Qed.

  Lemma in_anti l L R : In l (anti L R) <-> In l L /\ forall r, In r R -> m l r = false.
  Proof.
    unfold anti. rewrite filter_In. rewrite negb_true_iff, has_match_false. tauto.
  Qed.

  (** ** basic laws *)

  (** inner join = the ON filter applied to the cross product (as pairs) *)
  Lemma inner_is_filtered_product L R :
    inner L R = map (fun p => fst p ++ snd p) (filter (fun p => m (fst p) (snd p)) (list_prod L R)).
  Proof.
    unfold inner, matches. induction L as [|l L IH]; simpl; [reflexivity|].
    rewrite filter_app, map_app, IH. f_equal.
    clear IH. induction R as [|r R IH]; simpl; [reflexivity|].
    destruct (m l r); simpl; rewrite IH; reflexivity.
  Qed.

  Lemma cross_is_product L R : cross L R = map (fun p => fst p ++ snd p) (list_prod L R).
  Proof.
    unfold cross. induction L as [|l L IH]; simpl; [reflexivity|].
    rewrite map_app, IH, map_map. reflexivity.
  Qed.

  Lemma cross_length L R : List.length (cross L R) = (List.length L * List.length R)%nat.
  Proof. rewrite cross_is_product, map_length. apply prod_length. Qed.

  (** left outer = inner ++ the unmatched left rows padded with NULLs (as bags) *)
  Lemma left_is_inner_plus_unmatched L R :
    Permutation (left L R) (inner L R ++ pad_unmatched_l L R).
  Proof.
    unfold left, inner, pad_unmatched_l. induction L as [|l L IH]; simpl; [constructor|].
    unfold left_one at 1. destruct (matches l R) as [|r0 ms] eqn:E.
    - assert (Hn : has_match l R = false) by (apply matches_nil_iff; exact E).
      rewrite Hn. simpl.
      apply Permutation_cons_app. exact IH.
    - assert (Hn : has_match l R = true).
      { destruct (has_match l R) eqn:E2; [reflexivity|]. apply matches_nil_iff in E2. congruence. }
      rewrite Hn. simpl. constructor. rewrite <- app_assoc.
      apply Permutation_app_head. exact IH.
  Qed.

  Lemma right_is_inner_plus_unmatched L R : right L R = inner L R ++ pad_unmatched_r L R.
  Proof. reflexivity. Qed.

  Lemma full_is_inner_plus_both L R :
    Permutation (full L R) (inner L R ++ pad_unmatched_l L R ++ pad_unmatched_r L R).
  Proof.
    unfold full. rewrite app_assoc. apply Permutation_app_tail. apply left_is_inner_plus_unmatched.
  Qed.

  (** outer joins pad: an unmatched left (right) row appears exactly as itself followed (preceded) by NULLs *)
  Lemma left_pads l L R :
    In l L -> (forall r, In r R -> m l r = false) -> In (l ++ nulls nr) (left L R).
  Proof.
    intros Hl Hn. eapply Permutation_in; [symmetry; apply left_is_inner_plus_unmatched|].
    apply in_or_app. right. unfold pad_unmatched_l. apply in_map_iff. exists l. split; [reflexivity|].
    apply filter_In. split; [exact Hl|]. apply negb_true_iff, has_match_false. exact Hn.
  Qed.

  Lemma in_pad_unmatched_r r L R :
    In r R -> (forall l, In l L -> m l r = false) -> In (nulls nl ++ r) (pad_unmatched_r L R).
  Proof.
    intros Hr Hn. unfold pad_unmatched_r.
    apply in_map. apply filter_In. split; [exact Hr|]. apply negb_true_iff.
    unfold matched_r. destruct (existsb (fun l => m l r) L) eqn:E; [|reflexivity].
    apply existsb_exists in E. destruct E as [l [Hl Hm]]. rewrite (Hn l Hl) in Hm. discriminate.
  Qed.

  Lemma right_pads r L R :
    In r R -> (forall l, In l L -> m l r = false) -> In (nulls nl ++ r) (right L R).
  Proof. intros Hr Hn. unfold right. apply in_or_app. right. apply in_pad_unmatched_r; assumption. Qed.

  Lemma full_pads_both L R :
    (forall l, In l L -> (forall r, In r R -> m l r = false) -> In (l ++ nulls nr) (full L R)) /\
    (forall r, In r R -> (forall l, In l L -> m l r = false) -> In (nulls nl ++ r) (full L R)).
  Proof.
    split.
    - intros l Hl Hn. unfold full. apply in_or_app. left. apply left_pads; assumption.
    - intros r Hr Hn. unfold full. apply in_or_app. right. apply in_pad_unmatched_r; assumption.
  Qed.

  (** every joined row of an inner-like part satisfies ON; matched pairs are all present *)
  Lemma inner_complete l r L R : In l L -> In r R -> m l r = true -> In (l ++ r) (inner L R).
  Proof. intros. apply in_inner. exists l, r. auto. Qed.

  Lemma inner_sub_left L R : forall x, In x (inner L R) -> In x (left L R).
  Proof.
    intros x H. eapply Permutation_in; [symmetry; apply left_is_inner_plus_unmatched|].
    apply in_or_app; left; exact H.
  Qed.

  (** semi and anti partition the left input (as bags): every left row is kept by exactly one of them,
      with its multiplicity *)
  Lemma semi_anti_partition L R : Permutation (semi L R ++ anti L R) L.
  Proof.
    unfold semi, anti. induction L as [|l L IH]; simpl; [constructor|].
    destruct (has_match l R); simpl.
    - constructor. exact IH.
    - symmetry. apply Permutation_cons_app. symmetry. exact IH.
  Qed.

  Lemma count_filter_le (f : row -> bool) (L : list row) x :
    (count_occ row_eq_dec (filter f L) x <= count_occ row_eq_dec L x)%nat.
  Proof.
    induction L as [|l L IH]; simpl; [lia|].
    destruct (f l); simpl; destruct (row_eq_dec l x); lia.
  Qed.

  (** semi/anti keep each left row at most as often as it occurs on the left (never multiplied by the
      number of partners) *)
  Lemma semi_at_most_once L R x :
    (count_occ row_eq_dec (semi L R) x <= count_occ row_eq_dec L x)%nat.
  Proof. apply count_filter_le. Qed.
  Lemma anti_at_most_once L R x :
    (count_occ row_eq_dec (anti L R) x <= count_occ row_eq_dec L x)%nat.
  Proof. apply count_filter_le. Qed.

  Lemma semi_anti_count L R x :
    (count_occ row_eq_dec (semi L R) x + count_occ row_eq_dec (anti L R) x = count_occ row_eq_dec L x)%nat.
  Proof.
    unfold semi, anti. induction L as [|l L IH]; simpl; [reflexivity|].
    destruct (has_match l R); simpl; destruct (row_eq_dec l x); lia.
  Qed.

  (** sizes *)
  Lemma left_length_ge L R : (List.length L <= List.length (left L R))%nat.
  Proof.
    unfold left. induction L as [|l L IH]; simpl; [lia|].
    rewrite app_length.
    assert (H1 : (1 <= List.length (left_one R l))%nat).
    { unfold left_one. destruct (matches l R) as [|r0 ms]; cbn [List.length map]; lia. }
    lia.
  Qed.

  Lemma inner_empty_r L : inner L [] = [].
  Proof. unfold inner. induction L; simpl; auto. Qed.
  Lemma left_empty_r L : left L [] = map (fun l => l ++ nulls nr) L.
  Proof. unfold left. induction L as [|l L IH]; simpl; [reflexivity|]. rewrite IH. reflexivity. Qed.
  Lemma semi_empty_r L : semi L [] = [].
  Proof. unfold semi. induction L; simpl; auto. Qed.
  Lemma anti_empty_r L : anti L [] = L.
  Proof. unfold anti. induction L as [|l L IH]; simpl; [reflexivity|]. f_equal. exact IH. Qed.
End Join.

(** the join only depends on the match predicate's values on pairs of input rows *)
Lemma join_ext (m1 m2 : row -> row -> bool) nl nr k L R :
  (forall l r, In l L -> In r R -> m1 l r = m2 l r) ->
  join m1 nl nr k L R = join m2 nl nr k L R.
Proof.
  intro H.
  assert (Hm : forall l, In l L -> matches m1 l R = matches m2 l R).
  { intros l Hl. unfold matches. apply filter_ext_in. intros r Hr. apply H; assumption. }
  assert (Hh : forall l, In l L -> has_match m1 l R = has_match m2 l R).
  { intros l Hl. unfold has_match. clear Hm.
    induction R as [|r R IH]; simpl; [reflexivity|].
    rewrite H by (auto; left; reflexivity). f_equal. apply IH.
    intros l0 r0 Hl0 Hr0. apply H; [exact Hl0 | right; exact Hr0]. }
  assert (Hr : forall r, In r R -> matched_r m1 L r = matched_r m2 L r).
  { intros r Hr. unfold matched_r. clear Hm Hh.
    induction L as [|l L IH]; simpl; [reflexivity|].
    rewrite H by (auto; left; reflexivity). f_equal. apply IH.
    intros l0 r0 Hl0 Hr0. apply H; [right; exact Hl0 | exact Hr0]. }
  assert (Hinner : inner m1 L R = inner m2 L R).
  { unfold inner. clear Hh Hr. induction L as [|l L IH]; simpl; [reflexivity|].
    rewrite Hm by (left; reflexivity). f_equal. apply IH.
    - intros l0 r0 Hl0 Hr0. apply H; [right; exact Hl0 | exact Hr0].
    - intros l0 Hl0. apply Hm. right; exact Hl0. }
  assert (Hleft : left m1 nr L R = left m2 nr L R).
  { unfold left. clear Hh Hr Hinner. induction L as [|l L IH]; simpl; [reflexivity|].
    unfold left_one at 1 3. rewrite Hm by (left; reflexivity). f_equal. apply IH.
    - intros l0 r0 Hl0 Hr0. apply H; [right; exact Hl0 | exact Hr0].
    - intros l0 Hl0. apply Hm. right; exact Hl0. }
  assert (Hpr : pad_unmatched_r m1 nl L R = pad_unmatched_r m2 nl L R).
  { unfold pad_unmatched_r. f_equal. apply filter_ext_in. intros r Hr0. rewrite Hr by exact Hr0. reflexivity. }
  destruct k; simpl.
  - exact Hinner.
  - reflexivity.
  - exact Hleft.
  - unfold right. rewrite Hinner, Hpr. reflexivity.
  - unfold full. rewrite Hleft, Hpr. reflexivity.
  - unfold semi. apply filter_ext_in. intros l Hl. apply Hh; exact Hl.
  - unfold anti. apply filter_ext_in. intros l Hl. rewrite Hh by exact Hl. reflexivity.
Qed.

(** * ON conditions under three-valued logic *)

(** the match predicate of an ON expression over the concatenated columns: TRUE matches; FALSE and
    UNKNOWN (NULL) do not *)
Definition on_match (lc rc : list string) (c : option expr) (l r : row) : bool :=
  match c with
  | None => true
  | Some e => holds (lc ++ rc) (l ++ r) e
  end.

Lemma holds_and cs r a b : holds cs r (EBin And a b) = holds cs r a && holds cs r b.
Proof.
  unfold holds. simpl.
  destruct (eval cs r a) as [| | |[|]|], (eval cs r b) as [| | |[|]|]; reflexivity.
Qed.

(** [=] never matches when either side is NULL -- whatever the other side is *)
Theorem eq_null_never_holds cs r a b :
  eval cs r a = VNull \/ eval cs r b = VNull -> holds cs r (EBin Eq a b) = false.
Proof.
  unfold holds. simpl. intros [H|H]; rewrite H; [reflexivity|].
  destruct (eval cs r a); reflexivity.
Qed.

(** ... and so does every comparison operator *)
Theorem cmp_null_never_holds cs r o a b :
  In o [Eq; Neq; Lt; Le; Gt; Ge] ->
  eval cs r a = VNull \/ eval cs r b = VNull -> holds cs r (EBin o a b) = false.
Proof.
  unfold holds. simpl.
  intros Ho [H|H]; rewrite H; repeat (destruct Ho as [<-|Ho]; [simpl; try reflexivity; destruct (eval cs r a); reflexivity|]);
    contradiction.
Qed.

(** [<=>] (eqNullSafe) matches exactly when the two values are identical, NULL included *)
Theorem nullsafe_holds_iff cs r a b :
  holds cs r (EBin NullSafeEq a b) = val_eqb (eval cs r a) (eval cs r b).
Proof. unfold holds. simpl. destruct (val_eqb _ _); reflexivity. Qed.

Corollary nullsafe_null_matches cs r a b :
  eval cs r a = VNull -> eval cs r b = VNull -> holds cs r (EBin NullSafeEq a b) = true.
Proof. intros Ha Hb. rewrite nullsafe_holds_iff, Ha, Hb. reflexivity. Qed.

(** a conjunction of key equalities (the ON of a name join) *)
Fixpoint conj (es : list expr) : option expr :=
  match es with
  | [] => None
  | [e] => Some e
  | e :: es' => match conj es' with Some c => Some (EBin And e c) | None => Some e end
  end.

(** python's functools.reduce(lambda x, y: x & y, es): left-nested *)
Definition conj_left (es : list expr) : option expr :=
  match es with
  | [] => None
  | e :: es' => Some (fold_left (fun acc x => EBin And acc x) es' e)
  end.

Lemma holds_fold_and cs r es : forall e,
  holds cs r (fold_left (fun acc x => EBin And acc x) es e) = holds cs r e && forallb (holds cs r) es.
Proof.
  induction es as [|x es IH]; intro e; simpl; [rewrite andb_true_r; reflexivity|].
  rewrite IH, holds_and, andb_assoc. reflexivity.
Qed.

Lemma on_match_conj_left lc rc es l r :
  on_match lc rc (conj_left es) l r = forallb (holds (lc ++ rc) (l ++ r)) es.
Proof.
  destruct es as [|e es]; simpl; [reflexivity|]. apply holds_fold_and.
Qed.

(** NULL keys never match in a key-equality join: if one of the compared key values is NULL on the pair,
    the pair is not matched *)
Theorem null_key_never_matches lc rc (keys : list (expr * expr)) l r :
  (exists p, In p keys /\ (eval (lc ++ rc) (l ++ r) (fst p) = VNull \/ eval (lc ++ rc) (l ++ r) (snd p) = VNull)) ->
  on_match lc rc (conj_left (map (fun p => EBin Eq (fst p) (snd p)) keys)) l r = false.
Proof.
  intros [p [Hp Hn]]. rewrite on_match_conj_left.
  destruct (forallb _ _) eqn:E; [|reflexivity].
  rewrite forallb_forall in E.
  specialize (E (EBin Eq (fst p) (snd p))).
  rewrite eq_null_never_holds in E by exact Hn.
  assert (false = true); [|discriminate]. apply E. apply in_map_iff. exists p. auto.
Qed.

(** consequences for the seven kinds: a left row whose key is NULL (so that it matches nothing) is absent
    from inner and semi results, kept once by anti, and padded by left/full *)
Section NullKeyRows.
  Variable m : row -> row -> bool.
  Variables nl nr : nat.
  Variables (L R : list row) (l : row).
  Hypothesis Hl : In l L.
  Hypothesis Hnomatch : forall r, In r R -> m l r = false.

  Lemma unmatched_not_in_semi : ~ In l (semi m L R).
  Proof.
    intro H. apply in_semi in H. destruct H as [_ [r [Hr Hm]]]. rewrite (Hnomatch r Hr) in Hm. discriminate.
  Qed.
  Lemma unmatched_in_anti : In l (anti m L R).
  Proof. apply in_anti. auto. Qed.
  Lemma unmatched_padded_in_left : In (l ++ nulls nr) (left m nr L R).
  Proof. apply left_pads; assumption. Qed.
  Lemma unmatched_padded_in_full : In (l ++ nulls nr) (full m nl nr L R).
  Proof. apply (proj1 (full_pads_both m nl nr L R)); assumption. Qed.
  Lemma unmatched_left_one : left_one m nr R l = [l ++ nulls nr].
  Proof.
    unfold left_one. assert (E : matches m l R = []).
    { apply matches_nil_iff, has_match_false. exact Hnomatch. }
    rewrite E. reflexivity.
  Qed.
End NullKeyRows.
