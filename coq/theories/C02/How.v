(** C02 -- the [how] argument of DataFrame.join: from the spelling the user wrote to the join kind that is
    executed and to the flags that drive the construction of the select list.

    [howcfg] is REGENERATED from /repo on every run (translate/c02_facts.py): JOIN_TYPE_MAPPING, the literals
    of the two ["cross" in how] tests and the values assigned there, the two characters of [.replace], the
    [["left anti", "left semi"]] list, and the literals compared with [join_type] / the first join's [side].

    Environment, as definitions (validated by T3 and the PySpark recordings):
    - [parse_join_type]: how sqlglot reads the join-type text ([Select.join(join_type=...)]: optional side word,
      optional kind word, case-insensitive, the raw words are stored),
    - [engine_kind]: what the rendered words mean to the SQL engine,
    - [spark_kind]: Spark's JoinType.apply (lower-case, drop underscores, look up). *)
From SF Require Export C02.Join.
From Coq Require Import Ascii.
Open Scope string_scope.

(** ** strings *)
Definition lower_ascii (a : ascii) : ascii :=
  let n := nat_of_ascii a in
  if (Nat.leb 65 n && Nat.leb n 90)%bool then ascii_of_nat (n + 32) else a.
Fixpoint lower (s : string) : string :=
  match s with EmptyString => EmptyString | String a s' => String (lower_ascii a) (lower s') end.
Fixpoint remove_char (c : ascii) (s : string) : string :=
  match s with
  | EmptyString => EmptyString
  | String a s' => if Ascii.eqb a c then remove_char c s' else String a (remove_char c s')
  end.
Fixpoint replace_char (c d : ascii) (s : string) : string :=
  match s with
  | EmptyString => EmptyString
  | String a s' => String (if Ascii.eqb a c then d else a) (replace_char c d s')
  end.
(** python's [sub in s] *)
Fixpoint contains (sub s : string) : bool :=
  String.prefix sub s || match s with EmptyString => false | String _ s' => contains sub s' end.
(** words separated by blanks *)
Fixpoint words_aux (cur : string) (s : string) : list string :=
  match s with
  | EmptyString => if String.eqb cur "" then [] else [cur]
  | String a s' =>
      if Ascii.eqb a " "%char then (if String.eqb cur "" then words_aux "" s' else cur :: words_aux "" s')
      else words_aux (cur ++ String a EmptyString) s'
  end.
Definition words (s : string) : list string := words_aux "" s.

Definition smem (s : string) (l : list string) : bool := existsb (String.eqb s) l.
Fixpoint assoc (k : string) (l : list (string * string)) : option string :=
  match l with
  | [] => None
  | (a, b) :: l' => if String.eqb a k then Some b else assoc k l'
  end.

(** ** facts regenerated from the source *)
Record howcfg := mkHowCfg {
  h_map : list (string * string);     (* JOIN_TYPE_MAPPING *)
  h_cross_in_none : string;           (* literal in: (on is None) and ("cross" not in how) *)
  h_set_cross : string;               (*   how = "cross" *)
  h_cross_in_some : string;           (* literal in: (on is not None) and ("cross" in how) *)
  h_set_inner : string;               (*   how = "inner" *)
  h_rep_from : ascii;                 (* .replace("_", " ") *)
  h_rep_to : ascii;
  h_left_only : list string;          (* join_type in ["left anti", "left semi"] -> only the left columns *)
  h_cross_eq : string;                (* join_type != "cross" *)
  h_full_eq : string;                 (* join_type == "full outer" -> COALESCE of the keys *)
  h_right_eq : string                 (* joins[0].args.get("side") == "right" -> resolve right-to-left *)
}.

(** ** environment: sqlglot's reading of the join-type text, the engine's meaning, Spark's table *)
Definition side_words := ["left"; "right"; "full"].
Definition kind_words := ["inner"; "outer"; "cross"; "semi"; "anti"].

(** (side word as written, kind word as written); None = ParseError *)
Definition parse_join_type (jt : string) : option (option string * option string) :=
  match words jt with
  | [] => Some (None, None)
  | [w] => if smem (lower w) side_words then Some (Some w, None)
           else if smem (lower w) kind_words then Some (None, Some w) else None
  | [w1; w2] => if smem (lower w1) side_words && smem (lower w2) kind_words then Some (Some w1, Some w2) else None
  | _ => None
  end.

Definition engine_kind (p : option string * option string) : option jkind :=
  match option_map lower (fst p), option_map lower (snd p) with
  | None, None => Some JInner
  | None, Some "inner" => Some JInner
  | None, Some "cross" => Some JCross
  | Some "left", None | Some "left", Some "outer" => Some JLeft
  | Some "right", None | Some "right", Some "outer" => Some JRight
  | Some "full", None | Some "full", Some "outer" => Some JFull
  | None, Some "semi" | Some "left", Some "semi" => Some JSemi
  | None, Some "anti" | Some "left", Some "anti" => Some JAnti
  | _, _ => None
  end.

(** Spark 3.5 JoinType.apply *)
Definition spark_kind (how : string) : option jkind :=
  let h := remove_char "_"%char (lower how) in
  if smem h ["inner"] then Some JInner
  else if smem h ["outer"; "full"; "fullouter"] then Some JFull
  else if smem h ["leftouter"; "left"] then Some JLeft
  else if smem h ["rightouter"; "right"] then Some JRight
  else if smem h ["leftsemi"; "semi"] then Some JSemi
  else if smem h ["leftanti"; "anti"] then Some JAnti
  else if smem h ["cross"] then Some JCross
  else None.

(** the spellings PySpark documents for [how] *)
Definition documented : list string :=
  ["inner"; "cross"; "outer"; "full"; "fullouter"; "full_outer"; "left"; "leftouter"; "left_outer";
   "right"; "rightouter"; "right_outer"; "semi"; "leftsemi"; "left_semi"; "anti"; "leftanti"; "left_anti"].

(** ** the model of join()'s first lines *)
Record hflags := mkFlags {
  f_text : string;              (* join_type *)
  f_kind : option jkind;        (* what the engine executes; None = ParseError / not a join the engine knows *)
  f_left_only : bool;
  f_cross : bool;
  f_full : bool;
  f_right_side : bool }.

Definition eff_how (c : howcfg) (on_none : bool) (how : string) : string :=
  if on_none && negb (contains (h_cross_in_none c) how) then h_set_cross c
  else if negb on_none && contains (h_cross_in_some c) how then h_set_inner c
  else how.

Definition join_type_text (c : howcfg) (on_none : bool) (how : string) : string :=
  let h := eff_how c on_none how in
  replace_char (h_rep_from c) (h_rep_to c) (match assoc h (h_map c) with Some v => v | None => h end).

Definition impl_flags (c : howcfg) (on_none : bool) (how : string) : hflags :=
  let jt := join_type_text c on_none how in
  let p := parse_join_type jt in
  mkFlags jt
    (match p with Some q => engine_kind q | None => None end)
    (smem jt (h_left_only c))
    (String.eqb jt (h_cross_eq c))
    (String.eqb jt (h_full_eq c))
    (match p with Some (Some sd, _) => String.eqb sd (h_right_eq c) | _ => false end).

Definition is_semi_anti (k : jkind) : bool := match k with JSemi | JAnti => true | _ => false end.

(** what the flags have to be for a join of Spark kind [k] with an ON condition (Spark executes a cross
    join that has a condition as an inner join) *)
Definition flags_for (k : jkind) (f : hflags) : bool :=
  let k' := match k with JCross => JInner | _ => k end in
  match f_kind f with Some e => jkind_eqb e k' | None => false end
  && Bool.eqb (f_left_only f) (is_semi_anti k')
  && negb (f_cross f)
  && Bool.eqb (f_full f) (jkind_eqb k' JFull)
  && Bool.eqb (f_right_side f) (jkind_eqb k' JRight).

(** a spelling is handled correctly when a condition is given *)
Definition how_ok (c : howcfg) (how : string) : bool :=
  match spark_kind how with
  | Some k => flags_for k (impl_flags c false how)
  | None => false
  end.

(** ... and when no condition is given: Spark joins with the kind asked for and the condition TRUE;
    the implementation is right exactly when it executes that kind (a product for inner/cross) *)
Definition how_ok_none (c : howcfg) (how : string) : bool :=
  match spark_kind how with
  | Some k =>
      let f := impl_flags c true how in
      match f_kind f with
      | Some JCross => (jkind_eqb k JInner || jkind_eqb k JCross) && f_cross f && negb (f_left_only f)
                       && negb (f_right_side f)
      | _ => false
      end
  | None => false
  end.

Definition cfg_how_ok (c : howcfg) : bool := forallb (how_ok c) documented.
(** the two spellings whose meaning without a condition is the product *)
Definition cfg_none_ok (c : howcfg) : bool := forallb (how_ok_none c) ["inner"; "cross"].

(** every documented spelling reaches the join kind Spark gives it, with the flags of that kind *)
Theorem how_total (c : howcfg) :
  cfg_how_ok c = true ->
  forall how, In how documented ->
    exists k, spark_kind how = Some k /\ flags_for k (impl_flags c false how) = true.
Proof.
  intros H how Hin. unfold cfg_how_ok in H. rewrite forallb_forall in H. specialize (H how Hin).
  unfold how_ok in H. destruct (spark_kind how) as [k|]; [|discriminate]. exists k. auto.
Qed.

(** Spark's own table sends the 18 documented spellings onto the 7 kinds, each kind is reached *)
Lemma spark_kind_documented :
  map spark_kind documented =
  map Some [JInner; JCross; JFull; JFull; JFull; JFull; JLeft; JLeft; JLeft; JRight; JRight; JRight;
            JSemi; JSemi; JSemi; JAnti; JAnti; JAnti].
Proof. vm_compute. reflexivity. Qed.

(** the source as it was when the model was written (used by examples; the check uses the generated one) *)
Definition pinned_cfg : howcfg :=
  mkHowCfg
    [("outer", "full_outer"); ("full", "full_outer"); ("fullouter", "full_outer"); ("left", "left_outer");
     ("leftouter", "left_outer"); ("right", "right_outer"); ("rightouter", "right_outer");
     ("semi", "left_semi"); ("leftsemi", "left_semi"); ("anti", "left_anti"); ("leftanti", "left_anti")]
    "cross" "cross" "cross" "inner" "_"%char " "%char ["left anti"; "left semi"] "cross" "full outer" "right".

Example pinned_cfg_ok : cfg_how_ok pinned_cfg = true /\ cfg_none_ok pinned_cfg = true.
Proof. vm_compute. split; reflexivity. Qed.

(** spellings Spark accepts (it lower-cases) but that take a wrong path here *)
Example upper_case_spellings_not_ok :
  map (how_ok pinned_cfg) ["FULL"; "LEFT_SEMI"; "RIGHT"; "leftOuter"; "Inner"; "LEFT"] =
  [false; false; false; false; true; true].
Proof. vm_compute. reflexivity. Qed.

(** without a condition only inner and cross are executed as Spark does *)
Example no_condition_only_inner_cross :
  filter (how_ok_none pinned_cfg) documented = ["inner"; "cross"].
Proof. vm_compute. reflexivity. Qed.
