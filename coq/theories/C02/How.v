(** C02 -- the [how] argument of DataFrame.join: from the spelling the user wrote to the join kind that is
    executed and to the flags that drive the construction of the select list.

    [howcfg] is REGENERATED from /repo on every run (translate/c02_facts.py): JOIN_TYPE_MAPPING, the literals
    of the two ["cross" in how] tests and the values assigned there, the two characters of [.replace], the
    [["left anti", "left semi"]] list, and the literals compared with [join_type] / the first join's [side].

    Environment, as definitions (validated by T3 and the PySpark recordings):
    - [parse_join_type]: how sqlglot reads the join-type text ([Select.join(join_type=...)]: optional side word,
      optional kind word, case-insensitive, the raw words are stored),
    - [engine_kind]: what the rendered words mean to the SQL engine,
    - [spark_kind]: Spark's JoinType.apply (lower-case, drop underscores, look up). *)
From SF Require Export C02.Join.
From Coq Require Import Ascii.
Open Scope string_scope.

(** ** strings *)
Definition lower_ascii (a : ascii) : ascii :=
  let n := nat_of_ascii a in
  if (Nat.leb 65 n && Nat.leb n 90)%bool then ascii_of_nat (n + 32) else a.
Fixpoint lower (s : string) : string :=
  match s with EmptyString => EmptyString | String a s' => String (lower_ascii a) (lower s') end.
Fixpoint remove_char (c : ascii) (s : string) : string :=
  match s with
  | EmptyString => EmptyString
  | String a s' => if Ascii.eqb a c then remove_char c s' else String a (remove_char c s')
  end.
Fixpoint replace_char (c d : ascii) (s : string) : string :=
  match s with
  | EmptyString => EmptyString
  | String a s' => String (if Ascii.eqb a c then d else a) (replace_char c d s')
  end.
(** python's [sub in s] *)
Fixpoint contains (sub s : string) : bool :=
  String.prefix sub s || match s with EmptyString => false | String _ s' => contains sub s' end.
(** words separated by blanks *)
Fixpoint words_aux (cur : string) (s : string) : list string :=
  match s with
  | EmptyString => if String.eqb cur "" then [] else [cur]
  | String a s' =>
      if Ascii.eqb a " "%char then (if String.eqb cur "" then words_aux "" s' else cur :: words_aux "" s')
      else words_aux (cur ++ String a EmptyString) s'
  end.
Definition words (s : string) : list string := words_aux "" s.

Definition smem (s : string) (l : list string) : bool := existsb (String.eqb s) l.
Fixpoint assoc (k : string) (l : list (string * string)) : option string :=
  match l with
  | [] => None
  | (a, b) :: l' => if String.eqb a k then Some b else assoc k l'
  end.

(** ** facts regenerated from the source *)
Record howcfg := mkHowCfg {
  h_map : list (string * string);     (* JOIN_TYPE_MAPPING *)
  h_cross_in_none : string;           (* literal in: (on is None) and ("cross" not in how) *)
  h_set_cross : string;               (*   how = "cross" *)
  h_cross_in_some : string;           (* literal in: (on is not None) and ("cross" in how) *)
  h_set_inner : string;               (*   how = "inner" *)
  h_rep_from : ascii;                 (* .replace("_", " ") *)
  h_rep_to : ascii;
  h_left_only : list string;          (* join_type in ["left anti", "left semi"] -> only the left columns *)
  h_cross_eq : string;                (* join_type != "cross" *)
  h_full_eq : string;                 (* join_type == "full outer" -> COALESCE of the keys *)
  h_right_eq : string;                (* joins[0].args.get("side") == "right" -> resolve right-to-left *)
  h_norm : bool;                      (* join() starts with  how = how.lower().replace("_", "")  (as Spark does) *)
  h_none_eq : bool                    (* the `on is None` rewrite tests  how == <h_cross_in_none>  (only an inner join without
                                         a condition becomes the product; every other kind is kept and joined ON TRUE)
                                         instead of  <h_cross_in_none> not in how *)
}.

(** ** environment: sqlglot's reading of the join-type text, the engine's meaning, Spark's table *)
Definition side_words := ["left"; "right"; "full"].
Definition kind_words := ["inner"; "outer"; "cross"; "semi"; "anti"].

(** (side word as written, kind word as written); None = ParseError *)
Definition parse_join_type (jt : string) : option (option string * option string) :=
  match words jt with
  | [] => Some (None, None)
  | [w] => if smem (lower w) side_words then Some (Some w, None)
           else if smem (lower w) kind_words then Some (None, Some w) else None
  | [w1; w2] => if smem (lower w1) side_words && smem (lower w2) kind_words then Some (Some w1, Some w2) else None
  | _ => None
  end.

Definition engine_kind (p : option string * option string) : option jkind :=
  match option_map lower (fst p), option_map lower (snd p) with
  | None, None => Some JInner
  | None, Some "inner" => Some JInner
  | None, Some "cross" => Some JCross
  | Some "left", None | Some "left", Some "outer" => Some JLeft
  | Some "right", None | Some "right", Some "outer" => Some JRight
  | Some "full", None | Some "full", Some "outer" => Some JFull
  | None, Some "semi" | Some "left", Some "semi" => Some JSemi
  | None, Some "anti" | Some "left", Some "anti" => Some JAnti
  | _, _ => None
  end.

(** Spark 3.5 JoinType.apply: lower-case, drop underscores, look up *)
Definition norm_how (how : string) : string := remove_char "_"%char (lower how).
Definition sk (h : string) : option jkind :=
  if smem h ["inner"] then Some JInner
  else if smem h ["outer"; "full"; "fullouter"] then Some JFull
  else if smem h ["leftouter"; "left"] then Some JLeft
  else if smem h ["rightouter"; "right"] then Some JRight
  else if smem h ["leftsemi"; "semi"] then Some JSemi
  else if smem h ["leftanti"; "anti"] then Some JAnti
  else if smem h ["cross"] then Some JCross
  else None.
Definition spark_kind (how : string) : option jkind := sk (norm_how how).

(** the spellings Spark's table knows, after normalisation *)
Definition norm13 : list string :=
  ["inner"; "outer"; "full"; "fullouter"; "leftouter"; "left"; "rightouter"; "right"; "leftsemi"; "semi";
   "leftanti"; "anti"; "cross"].

(** the spellings PySpark documents for [how] *)
Definition documented : list string :=
  ["inner"; "cross"; "outer"; "full"; "fullouter"; "full_outer"; "left"; "leftouter"; "left_outer";
   "right"; "rightouter"; "right_outer"; "semi"; "leftsemi"; "left_semi"; "anti"; "leftanti"; "left_anti"].

(** ** the model of join()'s first lines *)
Record hflags := mkFlags {
  f_text : string;              (* join_type *)
  f_kind : option jkind;        (* what the engine executes; None = ParseError / not a join the engine knows *)
  f_left_only : bool;
  f_cross : bool;
  f_full : bool;
  f_right_side : bool }.

Definition eff_how (c : howcfg) (on_none : bool) (how : string) : string :=
  if on_none && (if h_none_eq c then String.eqb how (h_cross_in_none c) else negb (contains (h_cross_in_none c) how))
  then h_set_cross c
  else if negb on_none && contains (h_cross_in_some c) how then h_set_inner c
  else how.

Definition join_type_text (c : howcfg) (on_none : bool) (how : string) : string :=
  let h := eff_how c on_none how in
  replace_char (h_rep_from c) (h_rep_to c) (match assoc h (h_map c) with Some v => v | None => h end).

(** the spelling join() works with *)
Definition pre_how (c : howcfg) (how : string) : string := if h_norm c then norm_how how else how.

Definition flags_core (c : howcfg) (on_none : bool) (how : string) : hflags :=
  let jt := join_type_text c on_none how in
  let p := parse_join_type jt in
  mkFlags jt
    (match p with Some q => engine_kind q | None => None end)
    (smem jt (h_left_only c))
    (String.eqb jt (h_cross_eq c))
    (String.eqb jt (h_full_eq c))
    (match p with Some (Some sd, _) => String.eqb sd (h_right_eq c) | _ => false end).

Definition impl_flags (c : howcfg) (on_none : bool) (how : string) : hflags := flags_core c on_none (pre_how c how).

Definition is_semi_anti (k : jkind) : bool := match k with JSemi | JAnti => true | _ => false end.

(** what the flags have to be for a join of Spark kind [k] with an ON condition (Spark executes a cross
    join that has a condition as an inner join) *)
Definition flags_for (k : jkind) (f : hflags) : bool :=
  let k' := match k with JCross => JInner | _ => k end in
  match f_kind f with Some e => jkind_eqb e k' | None => false end
  && Bool.eqb (f_left_only f) (is_semi_anti k')
  && negb (f_cross f)
  && Bool.eqb (f_full f) (jkind_eqb k' JFull)
  && Bool.eqb (f_right_side f) (jkind_eqb k' JRight).

(** a spelling is handled correctly when a condition is given *)
Definition how_ok (c : howcfg) (how : string) : bool :=
  match spark_kind how with
  | Some k => flags_for k (impl_flags c false how)
  | None => false
  end.

(** ... and when no condition is given: Spark joins with the kind asked for and the condition TRUE.  An inner/cross join
    then is the product; the other kinds have to keep their kind (and its flags) -- which the implementation does only when
    [h_none_eq] (before that it turned every kind into the product) *)
Definition none_dom (c : howcfg) (k : jkind) : bool :=
  h_none_eq c || jkind_eqb k JInner || jkind_eqb k JCross.
Definition none_flags (k : jkind) (f : hflags) : bool :=
  match k with
  | JInner | JCross =>
      match f_kind f with Some JCross => f_cross f && negb (f_left_only f) && negb (f_right_side f) | _ => false end
  | _ => flags_for k f
  end.
Definition how_ok_none (c : howcfg) (how : string) : bool :=
  match spark_kind how with
  | Some k => negb (none_dom c k) || none_flags k (impl_flags c true how)
  | None => false
  end.
Definition how_ok_none_n (c : howcfg) (h : string) : bool :=
  match sk h with
  | Some k => negb (none_dom c k) || none_flags k (flags_core c true h)
  | None => false
  end.

(** a normalised spelling is handled correctly once join() has normalised it *)
Definition how_ok_n (c : howcfg) (h : string) : bool :=
  match sk h with
  | Some k => flags_for k (flags_core c false h)
  | None => false
  end.

Definition cfg_how_ok (c : howcfg) : bool :=
  forallb (how_ok c) documented && (negb (h_norm c) || forallb (how_ok_n c) norm13).
Definition cfg_none_ok (c : howcfg) : bool :=
  forallb (how_ok_none c) documented && (negb (h_norm c) || forallb (how_ok_none_n c) norm13).

(** every documented spelling reaches the join kind Spark gives it, with the flags of that kind *)
Theorem how_total (c : howcfg) :
  cfg_how_ok c = true ->
  forall how, In how documented ->
    exists k, spark_kind how = Some k /\ flags_for k (impl_flags c false how) = true.
Proof.
  intros H how Hin. unfold cfg_how_ok in H. apply andb_true_iff in H. destruct H as [H _].
  rewrite forallb_forall in H. specialize (H how Hin).
  unfold how_ok in H. destruct (spark_kind how) as [k|]; [|discriminate]. exists k. auto.
Qed.

Lemma smem_in x l : smem x l = true -> In x l.
Proof.
  unfold smem. intro H. apply existsb_exists in H. destruct H as [y [Hy E]]. apply String.eqb_eq in E. subst. exact Hy.
Qed.

Lemma sk_in h k : sk h = Some k -> In h norm13.
Proof.
  unfold sk, norm13. intro H.
  repeat match type of H with
         | (if smem h ?l then _ else _) = _ =>
             let E := fresh "E" in destruct (smem h l) eqn:E;
             [apply smem_in in E; simpl in E; simpl; tauto|]
         end.
  discriminate.
Qed.

(** when join() normalises the spelling the way Spark does, EVERY string Spark accepts (any case, any underscores) reaches
    its kind with that kind's flags *)
Theorem how_total_all (c : howcfg) :
  h_norm c = true -> cfg_how_ok c = true ->
  forall how k, spark_kind how = Some k -> flags_for k (impl_flags c false how) = true.
Proof.
  intros Hn H how k Hk. unfold cfg_how_ok in H. apply andb_true_iff in H. destruct H as [_ H].
  rewrite Hn in H. cbn [negb orb] in H. rewrite forallb_forall in H.
  unfold spark_kind in Hk. specialize (H _ (sk_in _ _ Hk)). unfold how_ok_n in H. rewrite Hk in H.
  unfold impl_flags, pre_how. rewrite Hn. exact H.
Qed.

(** the spellings inside the theorems' domain: all that Spark accepts when join() normalises, the documented ones otherwise *)
Definition how_accepted (c : howcfg) (how : string) : bool :=
  if h_norm c then match spark_kind how with Some _ => true | None => false end else smem how documented.
Definition none_accepted (c : howcfg) (how : string) : bool :=
  how_accepted c how && match spark_kind how with Some k => none_dom c k | None => false end.

Lemma accepted_kind c how :
  cfg_how_ok c = true -> how_accepted c how = true ->
  exists k0, spark_kind how = Some k0 /\ flags_for k0 (impl_flags c false how) = true.
Proof.
  intros Hc Ha. unfold how_accepted in Ha. destruct (h_norm c) eqn:Hn.
  - destruct (spark_kind how) as [k|] eqn:Hk; [|discriminate]. exists k. split; [reflexivity|].
    apply (how_total_all c Hn Hc how k Hk).
  - apply (how_total c Hc). apply smem_in. exact Ha.
Qed.

Lemma none_accepted_ok c how :
  cfg_none_ok c = true -> none_accepted c how = true ->
  exists k, spark_kind how = Some k /\ none_dom c k = true /\ none_flags k (impl_flags c true how) = true.
Proof.
  intros Hc Ha. unfold cfg_none_ok in Hc. apply andb_true_iff in Hc. destruct Hc as [Hd Hn13].
  unfold none_accepted in Ha. apply andb_true_iff in Ha. destruct Ha as [Ha Hk].
  destruct (spark_kind how) as [k|] eqn:Ek; [|discriminate]. exists k. split; [reflexivity|]. split; [exact Hk|].
  unfold how_accepted in Ha. destruct (h_norm c) eqn:Hn.
  - cbn [negb orb] in Hn13. rewrite forallb_forall in Hn13. unfold spark_kind in Ek.
    specialize (Hn13 _ (sk_in _ _ Ek)). unfold how_ok_none_n in Hn13. rewrite Ek, Hk in Hn13. cbn [negb orb] in Hn13.
    unfold impl_flags, pre_how. rewrite Hn. exact Hn13.
  - rewrite forallb_forall in Hd. specialize (Hd how (smem_in _ _ Ha)). unfold how_ok_none in Hd.
    rewrite Ek, Hk in Hd. exact Hd.
Qed.

(** Spark's own table sends the 18 documented spellings onto the 7 kinds, each kind is reached *)
Lemma spark_kind_documented :
  map spark_kind documented =
  map Some [JInner; JCross; JFull; JFull; JFull; JFull; JLeft; JLeft; JLeft; JRight; JRight; JRight;
            JSemi; JSemi; JSemi; JAnti; JAnti; JAnti].
Proof. vm_compute. reflexivity. Qed.

(** the source as it was when the model was written (used by examples; the check uses the generated one) *)
Definition pinned_cfg : howcfg :=
  mkHowCfg
    [("outer", "full_outer"); ("full", "full_outer"); ("fullouter", "full_outer"); ("left", "left_outer");
     ("leftouter", "left_outer"); ("right", "right_outer"); ("rightouter", "right_outer");
     ("semi", "left_semi"); ("leftsemi", "left_semi"); ("anti", "left_anti"); ("leftanti", "left_anti")]
    "cross" "cross" "cross" "inner" "_"%char " "%char ["left anti"; "left semi"] "cross" "full outer" "right" false false.

(** the same source with `how = how.lower().replace("_", "")` in front *)
Definition pinned_cfg_norm : howcfg :=
  mkHowCfg (h_map pinned_cfg) "cross" "cross" "cross" "inner" "_"%char " "%char ["left anti"; "left semi"] "cross" "full outer" "right" true false.
Example pinned_cfg_norm_ok : cfg_how_ok pinned_cfg_norm = true /\ cfg_none_ok pinned_cfg_norm = true.
Proof. vm_compute. split; reflexivity. Qed.
Example normalised_accepts_case_variants :
  map (fun h => flags_for (match spark_kind h with Some k => k | None => JInner end) (impl_flags pinned_cfg_norm false h))
      ["FULL"; "LEFT_SEMI"; "RIGHT"; "leftOuter"; "Full_Outer"; "l_e_f_t"] = [true; true; true; true; true; true].
Proof. vm_compute. reflexivity. Qed.

Example pinned_cfg_ok : cfg_how_ok pinned_cfg = true /\ cfg_none_ok pinned_cfg = true.
Proof. vm_compute. split; reflexivity. Qed.

(** spellings Spark accepts (it lower-cases) but that take a wrong path here *)
Example upper_case_spellings_not_ok :
  map (how_ok pinned_cfg) ["FULL"; "LEFT_SEMI"; "RIGHT"; "leftOuter"; "Inner"; "LEFT"] =
  [false; false; false; false; true; true].
Proof. vm_compute. reflexivity. Qed.

(** without a condition only inner and cross were executed as Spark does ... *)
Example no_condition_only_inner_cross :
  filter (fun h => none_flags (match spark_kind h with Some k => k | None => JInner end) (impl_flags pinned_cfg true h)) documented
  = ["inner"; "cross"].
Proof. vm_compute. reflexivity. Qed.

(** ... until the rewrite to the product was restricted to how == "inner" *)
Definition pinned_cfg_none : howcfg :=
  mkHowCfg (h_map pinned_cfg) "inner" "cross" "cross" "inner" "_"%char " "%char ["left anti"; "left semi"] "cross" "full outer" "right" true true.
Example pinned_cfg_none_ok : cfg_how_ok pinned_cfg_none = true /\ cfg_none_ok pinned_cfg_none = true
  /\ forallb (fun h => none_flags (match spark_kind h with Some k => k | None => JInner end) (impl_flags pinned_cfg_none true h)) documented = true.
Proof. vm_compute. repeat split; reflexivity. Qed.
