(** C02 -- hand model of DataFrame.join / the select and where that follow a join (sqlframe/base/dataframe.py
    join, _handle_join_column_names_only, _handle_self_join, _resolve_ambiguous_columns; normalize.py), the
    PySpark reference semantics of the same programs, and the evaluation both share.

    A joined DataFrame that has not been frozen into a CTE is ONE SELECT over a left-deep chain of joins of
    CTEs ("tables").  Columns of table [i] are written [qn i name]; the rows of the chain are "wide" rows
    (concatenation of the visible tables' rows, NULL-padded by outer joins). *)
From SF Require Export C02.How.
From SF Require Export Sql.Block.
From Coq Require Import Ascii.
Open Scope string_scope.
Open Scope list_scope.

(** ** qualified column names *)
Fixpoint qn (i : nat) (n : string) : string :=
  match i with O => String "."%char n | S j => String "'"%char (qn j n) end.

Lemma qn_inj i : forall j n m, qn i n = qn j m -> i = j /\ n = m.
Proof.
  induction i as [|i IH]; intros [|j] n m H; simpl in H; try discriminate.
  - inversion H; auto.
  - inversion H as [H1]. apply IH in H1. destruct H1; auto.
Qed.

(** ** user-level programs *)
Inductive ref :=
| RName (n : string)
    (* 'n' / F.col('n') *)
| RDf (t : nat) (b : nat) (uo : bool) (n : string)
    (* d['n'] / d.n : [t] = position (in the join chain) of the DataFrame d the user took the column from -- what
       PySpark means by it; [b] = d.branch_id; [uo] = d's join_on_uuid is known to the right side of the join
       being built and not to its left side *)
| RAlias (t : nat) (sq : list nat) (n : string).
    (* F.col('a.n'): [t] = position of the DataFrame that was aliased a; [sq] = the sequence ids registered for a *)

Inductive uexpr :=
| UCol (r : ref)
| ULit (v : val)
| UBin (o : binop) (a b : uexpr)
| UNot (a : uexpr)
| UIsNull (a : uexpr).

Inductive onform := OnNone | OnNames (ks : list string) | OnExprs (es : list uexpr).

(** lineage metadata of one CTE of the expression: the ids it was created with, and whether it is one of the
    tables of the FROM/JOIN chain *)
Record cmeta := mkCm { cm_branch : nat; cm_seq : nat; cm_tab : option nat }.

(** ** shared evaluation: joins, WHERE, select list *)
Definition jspec := (jkind * option expr)%type.

Fixpoint eval_joins (wc : list string) (wr : list row) (i : nat) (tabs : list frame) (js : list jspec)
  : option (list string * list row) :=
  match tabs, js with
  | [], [] => Some (wc, wr)
  | T :: tabs', (k, c) :: js' =>
      let tc := map (qn i) (cols T) in
      if match c with Some e => cols_in (wc ++ tc) e | None => true end then
        eval_joins (if is_semi_anti k then wc else wc ++ tc)
                   (join (on_match wc tc c) (List.length wc) (List.length tc) k wr (rows T))
                   (S i) tabs' js'
      else None
  | _, _ => None
  end.

(** None = the engine rejects the query (a reference to a table or column that is not visible) *)
Definition eval_core (tabs : list frame) (js : list jspec) (wh : list expr) (sel : list (expr * string))
  : option frame :=
  match tabs with
  | [] => None
  | T0 :: tabs' =>
      match eval_joins (map (qn 0) (cols T0)) (rows T0) 1 tabs' js with
      | None => None
      | Some (wc, wr) =>
          if forallb (cols_in wc) wh && forallb (fun it => cols_in wc (fst it)) sel
          then Some (mkFrame (map snd sel) (map (proj wc sel) (filter (all_hold wc wh) wr)))
          else None
      end
  end.

(** ** the implementation's state *)
Record st := mkSt {
  s_tabs : list frame;
  s_bases : list nat;            (* per table: which base DataFrame it derives from (only PySpark's semantics looks at it) *)
  s_joins : list jspec;
  s_ctes : list cmeta;
  s_first_right : bool;          (* expression.args["joins"][0].args.get("side") == "right" *)
  s_sel : list (expr * string);
  s_where : list expr }.

Definition init_sel (cs : list string) : list (expr * string) := map (fun n => (ECol (qn 0 n), n)) cs.
Definition init_st (T : frame) (base : nat) (ctes : list cmeta) : st :=
  mkSt [T] [base] [] ctes false (init_sel (cols T)) [].

Definition eval_st (s : st) : option frame := eval_core (s_tabs s) (s_joins s) (s_where s) (s_sel s).

(** *** _resolve_ambiguous_columns: the p-th unqualified occurrence of a name goes to the p-th table (in CTE
    order, reversed when the first join is a right join) that has a column of that name; later occurrences
    stay on the last such table *)
Definition indexed (tabs : list frame) : list (nat * list string) :=
  combine (seq 0 (List.length tabs)) (map cols tabs).
Definition order_of (first_right : bool) (tabs : list frame) : list (nat * list string) :=
  if first_right then rev (indexed tabs) else indexed tabs.
Definition tabs_with (tcs : list (nat * list string)) (n : string) : list nat :=
  map fst (filter (fun t => mem n (snd t)) tcs).
Definition pick (cands : list nat) (p : nat) : option nat :=
  match cands with [] => None | _ => nth_error cands (Nat.min p (List.length cands - 1)) end.
Fixpoint count_str (n : string) (l : list string) : nat :=
  match l with [] => O | x :: l' => (if String.eqb x n then 1 else 0) + count_str n l' end.

Inductive item := IName (n : string) | IExpr (e : expr) (out : string).

Definition resolve_name (tcs : list (nat * list string)) (seen : list string) (n : string) : expr :=
  match pick (tabs_with tcs n) (count_str n seen) with
  | Some i => ECol (qn i n)
  | None => ECol n                    (* stays unqualified; no table has it *)
  end.

Fixpoint resolve_items (tcs : list (nat * list string)) (seen : list string) (items : list item)
  : list (expr * string) :=
  match items with
  | [] => []
  | IExpr e o :: r => (e, o) :: resolve_items tcs seen r
  | IName n :: r => (resolve_name tcs seen n, n) :: resolve_items tcs (n :: seen) r
  end.

(** *** normalize.py: ids in column references -> CTE names *)
Inductive rres := RQ (i : nat) (n : string) | RBare (n : string) | RPending | RErr.

Definition nat_mem (x : nat) (l : list nat) : bool := existsb (Nat.eqb x) l.

Definition cte_table (c : option cmeta) (n : string) : rres :=
  match c with
  | Some c => match cm_tab c with Some i => RQ i n | None => RErr end   (* a CTE that is not in FROM: binder error *)
  | None => RPending
  end.

Definition first_two_same_branch (ctes : list cmeta) : bool :=
  match filter (fun c => match cm_tab c with Some _ => true | None => false end) ctes with
  | c0 :: c1 :: _ => Nat.eqb (cm_branch c0) (cm_branch c1)
  | _ => false
  end.

Definition norm_ref (ctes : list cmeta) (has_joins : bool) (ntabs : nat) (r : ref) : rres :=
  match r with
  | RName n => RBare n
  | RAlias _ sq n =>
      cte_table (find (fun c => nat_mem (cm_seq c) sq) (rev ctes)) n
  | RDf _ b _ n =>
      if has_joins && first_two_same_branch ctes
      then (if Nat.eqb ntabs 2 then RQ 0 n else RErr)             (* assert len(ctes_in_join) == 2 *)
      else cte_table (find (fun c => Nat.eqb (cm_branch c) b || Nat.eqb (cm_seq c) b) (rev ctes)) n
  end.

(** ON of an expression join: first pass in the context of the left DataFrame's expression, then
    _handle_self_join, then a second pass in the context of the joined expression *)
Definition norm_on_ref (ctes octes : list cmeta) (has_joins : bool) (ntabs : nat) (same_branch : bool)
  (tcs' : list (nat * list string)) (other_tab : nat) (r : ref) : rres :=
  let j := other_tab in
  let p1 := norm_ref ctes has_joins ntabs r in
  let p2 := match r with
            | RDf _ _ true n => if same_branch then RQ j n else p1
            | _ => p1
            end in
  match p2 with
  | RPending => match norm_ref (ctes ++ octes) true (S ntabs) r with RPending => RErr | x => x end
  | RBare n => match tabs_with tcs' n with [i] => RQ i n | _ => RErr end    (* unique, or the engine calls it ambiguous *)
  | x => x
  end.

(** where / select after a join: one pass in the context of the joined expression; an unqualified name goes to the
    first table (in resolution order) that has it *)
Definition norm_after_ref (ctes : list cmeta) (has_joins : bool) (ntabs : nat) (tcs : list (nat * list string))
  (r : ref) : rres :=
  match norm_ref ctes has_joins ntabs r with
  | RBare n => match pick (tabs_with tcs n) 0 with Some i => RQ i n | None => RErr end
  | RPending => RErr
  | x => x
  end.

Fixpoint resolve_uexpr (f : ref -> rres) (e : uexpr) : option expr :=
  match e with
  | UCol r => match f r with RQ i n => Some (ECol (qn i n)) | _ => None end
  | ULit v => Some (ELit v)
  | UBin o a b => match resolve_uexpr f a, resolve_uexpr f b with
                  | Some x, Some y => Some (EBin o x y) | _, _ => None end
  | UNot a => option_map ENot (resolve_uexpr f a)
  | UIsNull a => option_map EIsNull (resolve_uexpr f a)
  end.

Fixpoint map_opt {A B} (f : A -> option B) (l : list A) : option (list B) :=
  match l with
  | [] => Some []
  | x :: l' => match f x, map_opt f l' with Some y, Some r => Some (y :: r) | _, _ => None end
  end.

(** *** join() *)
Definition first_tab_with (tcs : list (nat * list string)) (n : string) : option nat := hd_error (tabs_with tcs n).

Definition key_eq (j : nat) (p : nat * string) : expr := EBin Eq (ECol (qn (fst p) (snd p))) (ECol (qn j (snd p))).

Definition m_join (c : howcfg) (s : st) (R : frame) (rbase : nat) (octes : list cmeta) (on : onform) (how : string)
  (same_branch : bool) (stale : option nat) : option st :=
  let f := impl_flags c (match on with OnNone => true | _ => false end) how in
  match f_kind f with
  | None => None                                                   (* ParseError *)
  | Some k =>
      let j := List.length (s_tabs s) in
      let tabs' := s_tabs s ++ [R] in
      let ctes' := s_ctes s ++ octes in
      let has_joins := negb (Nat.eqb j 1) in
      let fr' := if has_joins then s_first_right s else f_right_side f in
      let self_names := map snd (s_sel s) in
      let names := if f_left_only f then self_names else self_names ++ cols R in
      let finish (cond : option expr) (items : list item) :=
        Some (mkSt tabs' (s_bases s ++ [rbase]) (s_joins s ++ [(k, cond)]) ctes' fr'
                   (resolve_items (order_of fr' tabs') [] items) (s_where s)) in
      if f_cross f then finish None (map IName names)
      else match on with
           | OnNone =>
               (* no condition and not the product: the kind is kept and joined ON TRUE (only when join() does not rewrite
                  every condition-less join into a cross join; otherwise this point is not reached with a valid type) *)
               if h_none_eq c then finish (Some (ELit (VBool true))) (map IName names) else None
           | OnNames ks =>
               (* the tables searched for the left key: all but the one called other_df.latest_cte_name *)
               let other_tab := match stale with Some i => i | None => j end in
               let potential := match stale with
                                | None => indexed (s_tabs s)
                                | Some i => filter (fun t => negb (Nat.eqb (fst t) i)) (indexed tabs')
                                end in
               match map_opt (fun k => option_map (fun i => (i, k)) (first_tab_with potential k)) ks with
               | None => None                                        (* ValueError: column does not exist *)
               | Some pairs =>
                   let keyitems := map (fun p => if f_full f
                                                 then IExpr (ECoalesce (ECol (qn (fst p) (snd p))) (ECol (qn other_tab (snd p)))) (snd p)
                                                 else IName (snd p)) pairs in
                   finish (conj_left (map (key_eq other_tab) pairs))
                          (keyitems ++ map IName (filter (fun n => negb (smem n ks)) names))
               end
           | OnExprs es =>
               match map_opt (resolve_uexpr (norm_on_ref (s_ctes s) octes has_joins j same_branch (indexed tabs')
                                                          (match stale with Some i => i | None => j end))) es with
               | None => None
               | Some es' => finish (conj_left es') (map IName names)
               end
           end
  end.

Definition m_where (s : st) (e : uexpr) : option st :=
  let n := List.length (s_tabs s) in
  let has_joins := negb (Nat.eqb n 1) in
  match resolve_uexpr (norm_after_ref (s_ctes s) has_joins n (order_of (s_first_right s) (s_tabs s))) e with
  | Some e' => Some (mkSt (s_tabs s) (s_bases s) (s_joins s) (s_ctes s) (s_first_right s) (s_sel s) (s_where s ++ [e']))
  | None => None
  end.

Definition m_item (f : ref -> rres) (it : uexpr * string) : option item :=
  match fst it with
  | UCol (RName nm) => Some (IName nm)                 (* a bare name on its own: resolved by counting occurrences *)
  | e => option_map (fun e' => IExpr e' (snd it)) (resolve_uexpr f e)
  end.

Definition m_select (s : st) (items : list (uexpr * string)) : option st :=
  let n := List.length (s_tabs s) in
  let has_joins := negb (Nat.eqb n 1) in
  let tcs := order_of (s_first_right s) (s_tabs s) in
  match map_opt (m_item (norm_after_ref (s_ctes s) has_joins n tcs)) items with
  | Some its =>
      (* the output names are the aliases the user gave (a bare name without alias keeps its own name) *)
      Some (mkSt (s_tabs s) (s_bases s) (s_joins s) (s_ctes s) (s_first_right s)
                 (combine (map fst (resolve_items tcs [] its)) (map snd items)) (s_where s))
  | None => None
  end.

(** ** PySpark reference semantics of the same programs.  Columns are attributes: a reference through a DataFrame
    or an alias means the column of that DataFrame -- it must still be among the current output attributes (a USING join
    drops the other side's key, a semi/anti join the whole right side, a full outer USING join replaces both keys by their
    COALESCE), and, for a reference through a DataFrame, no other table of the chain may derive from the same base DataFrame
    and carry the same column (Spark reports an ambiguous self-join; conservative).  A bare name must be unique among the
    current output columns.  A USING join takes, on each side, the FIRST column of that name and drops only the joined pair. *)
Record sp := mkSp {
  p_tabs : list frame;
  p_bases : list nat;
  p_joins : list jspec;
  p_out : list (expr * string);
  p_where : list expr }.

Definition init_sp (T : frame) (base : nat) : sp := mkSp [T] [base] [] (init_sel (cols T)) [].
Definition eval_sp (p : sp) : option frame := eval_core (p_tabs p) (p_joins p) (p_where p) (p_out p).

Definition named (n : string) (out : list (expr * string)) : list (expr * string) :=
  filter (fun it => String.eqb (snd it) n) out.

Fixpoint remove_first (n : string) (out : list (expr * string)) : list (expr * string) :=
  match out with
  | [] => []
  | it :: r => if String.eqb (snd it) n then r else it :: remove_first n r
  end.
Definition drop_keys (ks : list string) (out : list (expr * string)) : list (expr * string) :=
  fold_left (fun o k => remove_first k o) ks out.

Definition in_out (out : list (expr * string)) (t : nat) (n : string) : bool :=
  existsb (fun it : expr * string => expr_eqb (fst it) (ECol (qn t n))) out.

(** another table of the chain derives from the same base DataFrame and has a column of that name *)
Definition self_join_ambiguous (tabs : list frame) (bases : list nat) (t : nat) (n : string) : bool :=
  existsb (fun t' => negb (Nat.eqb t' t)
                     && Nat.eqb (nth t' bases O) (nth t bases O)
                     && match nth_error tabs t' with Some T => mem n (cols T) | None => false end)
          (seq 0 (List.length tabs)).

Definition ref_valid (tabs : list frame) (bases : list nat) (out : list (expr * string)) (r : ref) : bool :=
  match r with
  | RDf t _ _ n => in_out out t n && negb (self_join_ambiguous tabs bases t n)
  | RAlias t _ n => in_out out t n
  | RName n => match named n out with [_] => true | _ => false end
  end.

Fixpoint sp_uexpr (valid : ref -> bool) (out : list (expr * string)) (e : uexpr) : option expr :=
  match e with
  | UCol r =>
      if valid r then
        match r with
        | RName n => match named n out with [it] => Some (fst it) | _ => None end   (* missing or ambiguous *)
        | RDf t _ _ n | RAlias t _ n => Some (ECol (qn t n))
        end
      else None
  | ULit v => Some (ELit v)
  | UBin o a b => match sp_uexpr valid out a, sp_uexpr valid out b with
                  | Some x, Some y => Some (EBin o x y) | _, _ => None end
  | UNot a => option_map ENot (sp_uexpr valid out a)
  | UIsNull a => option_map EIsNull (sp_uexpr valid out a)
  end.

Definition sp_join (p : sp) (R : frame) (rbase : nat) (on : onform) (how : string) : option sp :=
  match spark_kind how with
  | None => None
  | Some k =>
      let j := List.length (p_tabs p) in
      let tabs' := p_tabs p ++ [R] in
      let bases' := p_bases p ++ [rbase] in
      let rout := map (fun n => (ECol (qn j n), n)) (cols R) in
      let k' := match k with JCross => JInner | _ => k end in
      let mk (kk : jkind) (cond : option expr) (out : list (expr * string)) :=
        Some (mkSp tabs' bases' (p_joins p ++ [(kk, cond)]) out (p_where p)) in
      match on with
      | OnNone =>
          (* the kind asked for, condition TRUE; an inner join without condition is the product *)
          let kk := match k with JInner => JCross | _ => k end in
          mk kk (match kk with JCross => None | _ => Some (ELit (VBool true)) end)
             (if is_semi_anti k then p_out p else p_out p ++ rout)
      | OnExprs es =>
          match map_opt (sp_uexpr (ref_valid tabs' bases' (p_out p ++ rout)) (p_out p ++ rout)) es with
          | Some es' => mk k' (conj_left es') (if is_semi_anti k' then p_out p else p_out p ++ rout)
          | None => None
          end
      | OnNames ks =>
          match map_opt (fun key => match named key (p_out p), count_str key (cols R) with
                                    | it :: _, 1%nat => Some (fst it, key)
                                    | _, _ => None
                                    end) ks with
          | None => None
          | Some pairs =>
              let keyitems := map (fun q => match k' with
                                            | JRight => (ECol (qn j (snd q)), snd q)
                                            | JFull => (ECoalesce (fst q) (ECol (qn j (snd q))), snd q)
                                            | _ => (fst q, snd q)
                                            end) pairs in
              mk k' (conj_left (map (fun q => EBin Eq (fst q) (ECol (qn j (snd q)))) pairs))
                 (keyitems ++ drop_keys ks (p_out p) ++ (if is_semi_anti k' then [] else drop_keys ks rout))
          end
      end
  end.

Definition sp_where (p : sp) (e : uexpr) : option sp :=
  match sp_uexpr (ref_valid (p_tabs p) (p_bases p) (p_out p)) (p_out p) e with
  | Some e' => Some (mkSp (p_tabs p) (p_bases p) (p_joins p) (p_out p) (p_where p ++ [e']))
  | None => None
  end.

Definition sp_item (valid : ref -> bool) (out : list (expr * string)) (it : uexpr * string) : option (expr * string) :=
  option_map (fun e' => (e', snd it)) (sp_uexpr valid out (fst it)).

Definition sp_select (p : sp) (items : list (uexpr * string)) : option sp :=
  match map_opt (sp_item (ref_valid (p_tabs p) (p_bases p) (p_out p)) (p_out p)) items with
  | Some out => Some (mkSp (p_tabs p) (p_bases p) (p_joins p) out (p_where p))
  | None => None
  end.

(** ** programs: a chain of joins, then optionally a where or a select *)
Record jstep := mkStep {
  j_right : frame; j_base : nat; j_octes : list cmeta; j_on : onform; j_how : string; j_same_branch : bool;
  j_stale : option nat }.
  (* j_stale = Some i: the right DataFrame's last CTE had, before _add_ctes_to_expression renamed it, the very name of table i
     of the left side (same content, same hash).  join() keeps using that stale name (other_df.latest_cte_name). *)
Inductive fin := FNone | FWhere (e : uexpr) | FSelect (items : list (uexpr * string))
               | FRename (old new : string).       (* withColumnRenamed; outside the theorems, tied by T3 only *)

Fixpoint m_chain (c : howcfg) (s : st) (steps : list jstep) : option st :=
  match steps with
  | [] => Some s
  | x :: r => match m_join c s (j_right x) (j_base x) (j_octes x) (j_on x) (j_how x) (j_same_branch x) (j_stale x) with
              | Some s' => m_chain c s' r
              | None => None
              end
  end.
Fixpoint sp_chain (p : sp) (steps : list jstep) : option sp :=
  match steps with
  | [] => Some p
  | x :: r => match sp_join p (j_right x) (j_base x) (j_on x) (j_how x) with
              | Some p' => sp_chain p' r
              | None => None
              end
  end.

(** withColumnRenamed: the implementation re-selects every current column BY NAME (the renamed ones aliased), so the
    position-based resolution runs again; it raises when no column has the old name.  PySpark renames every column of that
    name in place (and does nothing when there is none). *)
Definition rename_items (old new : string) (names : list string) : list (uexpr * string) :=
  map (fun n => (UCol (RName n), if String.eqb n old then new else n)) names.
Definition m_fin (s : st) (f : fin) : option st :=
  match f with
  | FNone => Some s | FWhere e => m_where s e | FSelect its => m_select s its
  | FRename old new => if smem old (map snd (s_sel s)) then m_select s (rename_items old new (map snd (s_sel s))) else None
  end.
Definition sp_fin (p : sp) (f : fin) : option sp :=
  match f with
  | FNone => Some p | FWhere e => sp_where p e | FSelect its => sp_select p its
  | FRename old new =>
      Some (mkSp (p_tabs p) (p_bases p) (p_joins p)
                 (map (fun it : expr * string => (fst it, if String.eqb (snd it) old then new else snd it)) (p_out p)) (p_where p))
  end.

Definition m_run (c : howcfg) (L : frame) (lbase : nat) (lctes : list cmeta) (steps : list jstep) (f : fin) : option frame :=
  match m_chain c (init_st L lbase lctes) steps with
  | Some s => match m_fin s f with Some s' => eval_st s' | None => None end
  | None => None
  end.
Definition sp_run (L : frame) (lbase : nat) (steps : list jstep) (f : fin) : option frame :=
  match sp_chain (init_sp L lbase) steps with
  | Some p => match sp_fin p f with Some p' => eval_sp p' | None => None end
  | None => None
  end.

Definition sp_of (s : st) : sp := mkSp (s_tabs s) (s_bases s) (s_joins s) (s_sel s) (s_where s).
Lemma eval_sp_of s : eval_sp (sp_of s) = eval_st s.
Proof. reflexivity. Qed.
