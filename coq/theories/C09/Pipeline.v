(** C09 -- literal construction (lit / Column._lit / exp.convert), the engine + client as Section variables
    constrained by an explicit record of hypotheses, result conversion (_to_value / _create_row), and the
    value round trip by structural induction over nested values. *)
From Coq Require Import NArith ZArith List Bool Lia.
From SF Require Import C09.Lex C09.Values.
Import ListNotations.
Open Scope Z_scope.

(* ------------------------------------------------------------------------------------------------ *)
(** * The literal fragment of sqlglot trees that lit() produces *)

Inductive lit :=
| LNull
| LBool (b : bool)
| LInt (z : Z)
| LNum (f : fval)               (* Literal.number(repr of a float): a decimal numeral, or the bare word inf *)
| LStr (s : ustr)               (* Literal.string: rendered by Lex.render_string *)
| LStrNul (s : ustr)            (* CONCAT of the string literals of the NUL-free pieces of s and CHR(0) between them *)
| LCastStr (s : ustr) (t : sty) (* CAST('s' AS t) *)
| LHex (b : list N)             (* FROM_HEX('..') *)
| LDate (d : Z)                 (* CAST('<isoformat>' AS DATE) *)
| LTs (us : Z)                  (* CAST('<isoformat, sep=space>' AS TIMESTAMP) *)
| LTsTz (us : Z)                (* CAST('<isoformat in UTC>+00:00' AS TIMESTAMPTZ) *)
| LArr (l : list lit)
| LStruct (fs : list (ustr * lit))
| LTuple (l : list lit)
| LMap (ks vs : list lit)
| LErr.                         (* the Python code raised *)

Definition s_NaN : ustr := [78; 97; 78]%N.
Definition s_inf (neg : bool) : ustr := if neg then [45; 105; 110; 102]%N else [105; 110; 102]%N.

(** branches of Column._lit *)
Inductive lact := AStruct | AArray | ATuple | AMap | ANanCast (t : sty) | AInfCast | ATsCast | AStrNul.
(** branches of functions.lit *)
Inductive fact := FStrLit | FStrNested | FInfStr.

Definition lact_eqb (a b : lact) : bool :=
  match a, b with
  | AStruct, AStruct | AArray, AArray | ATuple, ATuple | AMap, AMap | AInfCast, AInfCast | ATsCast, ATsCast | AStrNul, AStrNul => true
  | ANanCast x, ANanCast y => sty_eqb x y
  | _, _ => false
  end.
Definition fact_eqb (a b : fact) : bool :=
  match a, b with FStrLit, FStrLit | FStrNested, FStrNested | FInfStr, FInfStr => true | _, _ => false end.

(** list combinators with the mapped function as a parameter outside the [fix], so that they can be used under
    a structural [Fixpoint] on the nested value types *)
Definition map_snd {K A B} (f : A -> B) : list (K * A) -> list (K * B) :=
  fix go l := match l with [] => [] | (k, x) :: r => (k, f x) :: go r end.
Definition mapo {A B} (f : A -> option B) : list A -> option (list B) :=
  fix go l := match l with
              | [] => Some []
              | x :: r => match f x, go r with Some y, Some ys => Some (y :: ys) | _, _ => None end
              end.
Definition mapo_snd {K A B} (f : A -> option B) : list (K * A) -> option (list (K * B)) :=
  fix go l := match l with
              | [] => Some []
              | (k, x) :: r => match f x, go r with Some y, Some ys => Some ((k, y) :: ys) | _, _ => None end
              end.

Lemma map_ext_Forall {A B} (f g : A -> B) l : Forall (fun x => f x = g x) l -> map f l = map g l.
Proof. induction 1 as [|x r Hx _ IH]; [reflexivity|]. cbn. rewrite Hx, IH. reflexivity. Qed.
Lemma map_snd_ext_Forall {K A B} (f g : A -> B) (l : list (K * A)) :
  Forall (fun kv => f (snd kv) = g (snd kv)) l -> map_snd f l = map_snd g l.
Proof. induction 1 as [|[k x] r Hx _ IH]; [reflexivity|]. cbn in *. rewrite Hx, IH. reflexivity. Qed.
Lemma mapo_map_Forall {A B C} (P : A -> bool) (f : B -> option C) (g : A -> B) (h : A -> C) l :
  Forall (fun x => P x = true -> f (g x) = Some (h x)) l -> forallb P l = true ->
  mapo f (map g l) = Some (map h l).
Proof.
  induction 1 as [|x r Hx _ IH]; intro H; [reflexivity|].
  cbn [forallb] in H. apply andb_true_iff in H. destruct H as [H1 H2].
  cbn [map mapo]. fold (mapo f). rewrite (Hx H1), (IH H2). reflexivity.
Qed.
Lemma mapo_snd_map_Forall {K A B C} (P : A -> bool) (f : B -> option C) (g : A -> B) (h : A -> C) (l : list (K * A)) :
  Forall (fun kv => P (snd kv) = true -> f (g (snd kv)) = Some (h (snd kv))) l ->
  forallb (fun kv => P (snd kv)) l = true ->
  mapo_snd f (map_snd g l) = Some (map_snd h l).
Proof.
  induction 1 as [|[k x] r Hx _ IH]; intro H; [reflexivity|].
  cbn [forallb snd] in H. apply andb_true_iff in H. destruct H as [H1 H2]. cbn [snd] in Hx.
  cbn [map_snd mapo_snd]. fold (@mapo_snd K _ _ f). fold (@map_snd K _ _ g). fold (@map_snd K _ _ h).
  rewrite (Hx H1), (IH H2). reflexivity.
Qed.

(** sqlglot's exp.convert on non-container values (environment; my definition, order as in sqlglot 26.14:
    str, bool, None/NaN, Number, bytes, datetime, date) *)
Definition convert_leaf (v : pyval) : lit :=
  match v with
  | PNone => LNull
  | PBool b => LBool b
  | PInt z => LInt z
  | PFloat FNaN => LNull
  | PFloat f => LNum f
  | PDec f => LNum f
  | PStr s => LStr s
  | PBytes b => LHex b
  | PDate d => LDate d
  | PTs us None => LTs us
  | PTs us (Some _) => LTsTz us
  | _ => LErr
  end.

(** struct field names go through the input dialect's normalize_identifier: Spark's is case-insensitive, every
    name (quoted or not) is lower-cased -- in the struct literal and in the type of the per-column CAST alike *)
Definition lower_ustr (s : ustr) : ustr :=
  map (fun c => if ((65 <=? c) && (c <=? 90))%N then (c + 32)%N else c) s.
Definition lower_keys {A} (l : list (ustr * A)) : list (ustr * A) := map (fun kv => (lower_ustr (fst kv), snd kv)) l.
Definition keys_lower {A} (l : list (ustr * A)) : bool := forallb (fun kv => ueqb (lower_ustr (fst kv)) (fst kv)) l.

Lemma lower_keys_id {A} (l : list (ustr * A)) : keys_lower l = true -> lower_keys l = l.
Proof.
  induction l as [|[k x] r IH]; [reflexivity|]. unfold keys_lower, lower_keys in *. cbn [forallb map fst snd].
  intro H. apply andb_true_iff in H. destruct H as [H1 H2]. apply ueqb_eq in H1. rewrite H1, (IH H2). reflexivity.
Qed.

Fixpoint lower_ty (t : sty) : sty :=
  match t with
  | TArray t' => TArray (lower_ty t')
  | TStruct fs => TStruct ((fix go (fs : list (ustr * sty)) : list (ustr * sty) :=
                              match fs with [] => [] | (k, x) :: r => (lower_ustr k, lower_ty x) :: go r end) fs)
  | TMap k v => TMap (lower_ty k) (lower_ty v)
  | _ => t
  end.

Section Lit.
  Variable lch : chain lact.     (* Column._lit, regenerated *)
  Variable fch : chain fact.     (* functions.lit, regenerated *)

  Definition lact_of (v : pyval) : option lact := first_match lch (cls_of v) (flav_of v) true false.

  (** Column._lit (recursive calls are cls._lit, not lit) *)
  Fixpoint lit_nested (v : pyval) : lit :=
    match lact_of v with
    | Some AStruct => match v with PRow fs => LStruct (lower_keys (map_snd lit_nested fs)) | _ => LErr end
    | Some AArray =>
        match v with
        | PList l | PTuple l => LArr (map lit_nested l)
        | PRow fs => LArr (map (fun kv => lit_nested (snd kv)) fs)
        | _ => LErr
        end
    | Some ATuple =>
        match v with
        | PList l | PTuple l => LTuple (map lit_nested l)
        | PRow fs => LTuple (map (fun kv => lit_nested (snd kv)) fs)
        | _ => LErr
        end
    | Some AMap =>
        match v with
        | PDict kv => LMap (map (fun p => lit_nested (fst p)) kv) (map (fun p => lit_nested (snd p)) kv)
        | _ => LErr
        end
    | Some (ANanCast t) => LCastStr s_NaN t
    | Some AInfCast => match v with PFloat (FInf neg) => LCastStr (s_inf neg) TDouble | _ => LErr end
    | Some ATsCast => match v with PTs us None => LTs us | PTs us (Some _) => LTsTz us | _ => LErr end
    | Some AStrNul => match v with PStr s => LStrNul s | _ => LErr end
    | None =>
        match v with
        | PList _ | PTuple _ | PRow _ | PDict _ => LErr   (* exp.convert would recurse with convert, not _lit; unreachable when the chain is right *)
        | _ => convert_leaf v
        end
    end.

  (** functions.lit: str -> Literal.string; +-inf -> Literal.string(str(value)); else Column(value) -> _lit *)
  Definition lit_top (v : pyval) : lit :=
    match first_match fch (cls_of v) (flav_of v) true false with
    | Some FStrLit => match v with PStr s => LStr s | _ => LErr end
    | Some FStrNested => match v with PStr _ => lit_nested v | _ => LErr end     (* return Column._lit(value) *)
    | Some FInfStr => match v with PFloat (FInf neg) => LStr (s_inf neg) | _ => LErr end
    | None => match v with PStr _ => LErr (* Column('text') parses a column name *) | _ => lit_nested v end
    end.

  (** a cell of createDataFrame's VALUES clause: floats through Column._lit (regenerated flag), everything
      else through functions.lit *)
  Definition cell_lit (floats_via_lit : bool) (v : pyval) : lit :=
    if floats_via_lit && match v with PFloat _ => true | _ => false end then lit_nested v else lit_top v.
End Lit.

(** the pattern-matching definitions the property needs *)
Fixpoint std_lit_nested (v : pyval) : lit :=
  match v with
  | PRow fs => LStruct (lower_keys (map_snd std_lit_nested fs))
  | PList l => LArr (map std_lit_nested l)
  | PTuple l => LTuple (map std_lit_nested l)
  | PDict kv => LMap (map (fun p => std_lit_nested (fst p)) kv) (map (fun p => std_lit_nested (snd p)) kv)
  | PFloat FNaN => LCastStr s_NaN TDouble
  | PFloat (FInf neg) => LCastStr (s_inf neg) TDouble
  | PStr s => if nul_free s then LStr s else LStrNul s
  | _ => convert_leaf v
  end.

Definition std_lit_top (v : pyval) : lit :=
  match v with
  | PFloat (FInf neg) => LStr (s_inf neg)
  | _ => std_lit_nested v
  end.

Definition std_lact (c : pycls) (fl : flav) : option lact :=
  match c with
  | CRow => Some AStruct | CList | CSet => Some AArray | CTuple => Some ATuple | CDict => Some AMap
  | CDatetime => Some ATsCast
  | CStr => match fl with FlNul => Some AStrNul | _ => None end
  | CFloat => match fl with FlNan => Some (ANanCast TDouble) | FlInf => Some AInfCast | _ => None end
  | _ => None
  end.
Definition std_fact (c : pycls) (fl : flav) : option fact :=
  match c with
  | CStr => Some FStrNested
  | CFloat => match fl with FlInf => Some FInfStr | _ => None end
  | _ => None
  end.

Definition oeqb {A} (eqb : A -> A -> bool) (a b : option A) : bool :=
  match a, b with Some x, Some y => eqb x y | None, None => true | _, _ => false end.

Definition all_flav := [FlPlain; FlNan; FlInf; FlNul].
Definition lit_chain_ok (lch : chain lact) : bool :=
  forallb (fun c => forallb (fun fl => oeqb lact_eqb (first_match lch c fl true false) (std_lact c fl)) all_flav) all_cls.
Definition litfn_chain_ok (fch : chain fact) : bool :=
  forallb (fun c => forallb (fun fl => oeqb fact_eqb (first_match fch c fl true false) (std_fact c fl)) all_flav) all_cls.

Lemma oeqb_lact a b : oeqb lact_eqb a b = true -> a = b.
Proof.
  destruct a as [x|], b as [y|]; cbn; try congruence. destruct x, y; cbn; try congruence.
  intro H. apply sty_eqb_eq in H. congruence.
Qed.
Lemma oeqb_fact a b : oeqb fact_eqb a b = true -> a = b.
Proof. destruct a as [x|], b as [y|]; cbn; try congruence. destruct x, y; cbn; congruence. Qed.

Lemma in_all_cls c : In c all_cls.
Proof. destruct c; cbn; tauto. Qed.
Lemma in_all_flav f : In f all_flav.
Proof. destruct f; cbn; tauto. Qed.

Lemma lit_chain_ok_act lch : lit_chain_ok lch = true ->
  forall v, lact_of lch v = std_lact (cls_of v) (flav_of v).
Proof.
  intros H v. unfold lit_chain_ok in H. rewrite forallb_forall in H.
  specialize (H _ (in_all_cls (cls_of v))). rewrite forallb_forall in H.
  apply oeqb_lact. apply H. apply in_all_flav.
Qed.

Lemma lit_nested_is_std lch : lit_chain_ok lch = true -> forall v, lit_nested lch v = std_lit_nested v.
Proof.
  intro Hok. pose proof (lit_chain_ok_act lch Hok) as K.
  apply pyval_rect'.
  - cbn [lit_nested]; rewrite K; reflexivity.
  - intro b; cbn [lit_nested]; rewrite K; reflexivity.
  - intro z; cbn [lit_nested]; rewrite K; reflexivity.
  - intro f; cbn [lit_nested]; rewrite K; destruct f; reflexivity.
  - intro f; cbn [lit_nested]; rewrite K; reflexivity.
  - intro s; cbn [lit_nested]; rewrite K; cbn [cls_of flav_of std_lact std_lit_nested]; destruct (nul_free s); reflexivity.
  - intro b; cbn [lit_nested]; rewrite K; reflexivity.
  - intro d; cbn [lit_nested]; rewrite K; reflexivity.
  - intros us tz; cbn [lit_nested]; rewrite K; destruct tz; reflexivity.
  - intros l H. cbn [lit_nested]. rewrite K. cbn [cls_of flav_of std_lact std_lit_nested]. f_equal.
    apply map_ext_Forall; exact H.
  - intros l H. cbn [lit_nested]. rewrite K. cbn [cls_of flav_of std_lact std_lit_nested]. f_equal.
    apply map_ext_Forall; exact H.
  - intros fs H. cbn [lit_nested]. rewrite K. cbn [cls_of flav_of std_lact std_lit_nested]. f_equal. f_equal.
    apply map_snd_ext_Forall; exact H.
  - intros kv H. cbn [lit_nested]. rewrite K. cbn [cls_of flav_of std_lact std_lit_nested]. f_equal.
    + apply map_ext_Forall. eapply Forall_impl; [|exact H]. cbn. tauto.
    + apply map_ext_Forall. eapply Forall_impl; [|exact H]. cbn. tauto.
Qed.

Lemma cell_lit_is_std_aux : forall v, match v with PFloat _ => False | _ => True end -> std_lit_top v = std_lit_nested v.
Proof. destruct v; try reflexivity. intro H; destruct H. Qed.

Lemma lit_top_is_std lch fch : lit_chain_ok lch = true -> litfn_chain_ok fch = true ->
  forall v, lit_top lch fch v = std_lit_top v.
Proof.
  intros Hl Hf v. unfold lit_top.
  assert (K : first_match fch (cls_of v) (flav_of v) true false = std_fact (cls_of v) (flav_of v)).
  { unfold litfn_chain_ok in Hf. rewrite forallb_forall in Hf.
    specialize (Hf _ (in_all_cls (cls_of v))). rewrite forallb_forall in Hf.
    apply oeqb_fact. apply Hf. apply in_all_flav. }
  rewrite K. destruct v; cbn [cls_of flav_of std_fact std_lit_top]; try (apply lit_nested_is_std; assumption).
  destruct f; cbn [flav_of std_fact std_lit_top]; try reflexivity; apply lit_nested_is_std; assumption.
Qed.

Lemma cell_lit_is_std lch fch : lit_chain_ok lch = true -> litfn_chain_ok fch = true ->
  forall v, cell_lit lch fch true v = std_lit_nested v.
Proof.
  intros Hl Hf v. unfold cell_lit. destruct v; cbn [andb];
    try (rewrite (lit_top_is_std lch fch Hl Hf); apply cell_lit_is_std_aux; exact I).
  apply lit_nested_is_std; assumption.
Qed.


(* ------------------------------------------------------------------------------------------------ *)
(** * Engine values, evaluation of literals, CAST, client conversion *)

Inductive dbval :=
| DNull | DBool (b : bool) | DInt (z : Z)
| DDec (f : fval)         (* DECIMAL holding the decimal numeral of f *)
| DDbl (f : fval) | DFlt (f : fval)
| DStr (s : ustr) | DBlob (b : list N) | DDate (d : Z) | DTs (us : Z) | DTsTz (us : Z)
| DList (l : list dbval) | DStruct (fs : list (ustr * dbval)).

Fixpoint lookup {A} (k : ustr) (fs : list (ustr * A)) : option A :=
  match fs with [] => None | (k', x) :: r => if ueqb k k' then Some x else lookup k r end.

Section Engine.
  (** environment: DuckDB's evaluation of leaf literals, its CAST on leaf values, the Python client's conversion
      of leaf values.  Constrained only by [env_ok] below. *)
  Variable eleaf : lit -> option dbval.
  Variable cleaf : sty -> dbval -> option dbval.
  Variable pleaf : dbval -> pyval.

  (** list and struct constructors evaluate their members (my definition of DuckDB's behaviour); the empty
      struct literal is an error *)
  Fixpoint eval (l : lit) : option dbval :=
    match l with
    | LArr xs => option_map DList (mapo eval xs)
    | LStruct fs => match fs with [] => None | _ => option_map DStruct (mapo_snd eval fs) end
    | LTuple _ | LMap _ _ | LErr => None          (* outside the modelled fragment *)
    | _ => eleaf l
    end.

  (** CAST: NULL stays NULL; lists element-wise; struct to struct BY NAME in the target's order (source fields
      that the target does not name are dropped -- DuckDB 1.2) *)
  Fixpoint cast (t : sty) (d : dbval) {struct t} : option dbval :=
    match d with
    | DNull => Some DNull
    | _ =>
      match t with
      | TArray t' => match d with DList xs => option_map DList (mapo (cast t') xs) | _ => None end
      | TStruct ts =>
          match d with
          | DStruct fs =>
              option_map DStruct ((fix go (ts : list (ustr * sty)) : option (list (ustr * dbval)) :=
                 match ts with
                 | [] => Some []
                 | (k, t') :: r =>
                     match lookup k fs with
                     | Some x => match cast t' x, go r with Some y, Some ys => Some ((k, y) :: ys) | _, _ => None end
                     | None => None
                     end
                 end) ts)
          | _ => None
          end
      | TMap _ _ => None
      | _ => cleaf t d
      end
    end.

  (** the DuckDB Python client: LIST -> list, STRUCT -> dict keyed by field name *)
  Fixpoint client (d : dbval) : pyval :=
    match d with
    | DList xs => PList (map client xs)
    | DStruct fs => PDict (map (fun kv => (PStr (fst kv), client (snd kv))) fs)
    | _ => pleaf d
    end.

  (** What is assumed about the environment, sentence by sentence (each one is exercised by T3). *)
  Record env_ok : Prop := {
    e_null : eleaf LNull = Some DNull;
    e_bool : forall b, eleaf (LBool b) = Some (DBool b);
    e_int : forall z, int64 z = true -> eleaf (LInt z) = Some (DInt z);
    (* a numeral without exponent is read as DECIMAL, one with exponent as DOUBLE -- the double nearest to it,
       which for CPython's shortest repr is the original double *)
    e_num : forall b e, eleaf (LNum (FFin b e)) = Some (if e then DDbl (FFin b e) else DDec (FFin b e));
    (* = Lex.string_roundtrip read as a statement about the engine: a NUL-free literal denotes its content *)
    e_str : forall s, nul_free s = true -> eleaf (LStr s) = Some (DStr s);
    (* CONCAT of the NUL-free pieces with CHR(0) between them denotes the string *)
    e_strnul : forall s, eleaf (LStrNul s) = Some (DStr s);
    e_nan : eleaf (LCastStr s_NaN TDouble) = Some (DDbl FNaN);
    e_inf : forall neg, eleaf (LCastStr (s_inf neg) TDouble) = Some (DDbl (FInf neg));
    e_hex : forall b, eleaf (LHex b) = Some (DBlob b);
    e_date : forall d, eleaf (LDate d) = Some (DDate d);
    e_ts : forall us, eleaf (LTs us) = Some (DTs us);
    e_tstz : forall us, eleaf (LTsTz us) = Some (DTsTz us);
    c_bool : forall b, cleaf TBool (DBool b) = Some (DBool b);
    c_int : forall z, int64 z = true -> cleaf TBigint (DInt z) = Some (DInt z);
    (* DECIMAL numeral of repr(f) -> DOUBLE is correctly rounded, hence f *)
    c_dec : forall f, cleaf TDouble (DDec f) = Some (DDbl f);
    c_dbl : forall f, cleaf TDouble (DDbl f) = Some (DDbl f);
    c_str : forall s, cleaf TString (DStr s) = Some (DStr s);
    c_blob : forall b, cleaf TBinary (DBlob b) = Some (DBlob b);
    c_date : forall d, cleaf TDate (DDate d) = Some (DDate d);
    (* Spark's "timestamp" is written TIMESTAMPTZ for DuckDB; session time zone UTC *)
    c_ts : forall us, cleaf TTimestamp (DTs us) = Some (DTsTz us);
    c_tstz : forall us, cleaf TTimestampTz (DTsTz us) = Some (DTsTz us);
    p_null : pleaf DNull = PNone;
    p_bool : forall b, pleaf (DBool b) = PBool b;
    p_int : forall z, pleaf (DInt z) = PInt z;
    p_dec : forall f, pleaf (DDec f) = PDec f;
    p_dbl : forall f, pleaf (DDbl f) = PFloat f;
    p_str : forall s, pleaf (DStr s) = PStr s;
    p_blob : forall b, pleaf (DBlob b) = PBytes b;
    p_date : forall d, pleaf (DDate d) = PDate d;
    p_ts : forall us, pleaf (DTs us) = PTs us None;
    p_tstz : forall us, pleaf (DTsTz us) = PTs us (Some 0)
  }.
End Engine.

(* ------------------------------------------------------------------------------------------------ *)
(** * Result conversion: _to_value / _to_row / _create_row *)

Inductive vact := VMap | VRow | VList | VStripTz | VFloat.
Definition vact_eqb (a b : vact) : bool :=
  match a, b with VMap, VMap | VRow, VRow | VList, VList | VStripTz, VStripTz | VFloat, VFloat => true | _, _ => false end.

Definition s_key : ustr := [107; 101; 121]%N.
Definition s_value : ustr := [118; 97; 108; 117; 101]%N.

Definition truthy_of (v : pyval) : bool :=
  match v with
  | PList [] | PTuple [] | PRow [] | PDict [] => false
  | _ => true
  end.

Definition is_pstr (v : pyval) : bool := match v with PStr _ => true | _ => false end.
Definition has_key (k : ustr) (kv : list (pyval * pyval)) : bool :=
  existsb (fun p => match fst p with PStr s => ueqb s k | _ => false end) kv.

Definition dict_get (k : ustr) (kv : list (pyval * pyval)) : option pyval :=
  match find (fun p => match fst p with PStr s => ueqb s k | _ => false end) kv with
  | Some p => Some (snd p)
  | None => None
  end.

(** DuckDBSession._try_get_map returns a map: non-empty dict whose entries key and value are lists of equal
    length (DuckDB < 1.1 layout; [legacy_any] = the unrepaired test, mere presence of both keys) or that has
    a key that is not a str *)
Definition maplike_gen (legacy_any : bool) (v : pyval) : bool :=
  match v with
  | PDict kv => truthy_of v &&
      ((if legacy_any then has_key s_key kv && has_key s_value kv
        else match dict_get s_key kv, dict_get s_value kv with
             | Some (PList a), Some (PList b) => Nat.eqb (List.length a) (List.length b)
             | _, _ => false
             end)
       || existsb (fun p => negb (is_pstr (fst p))) kv)
  | _ => false
  end.
Definition maplike_of := maplike_gen false.

Definition key_name (k : pyval) : ustr := match k with PStr s => s | _ => [] end.

(** _create_row: a Decimal that is a direct member of a row (top-level row or nested struct) becomes a float *)
Definition fix_dec (v : pyval) : pyval := match v with PDec f => PFloat f | _ => v end.

Section ToValue.
  Variable vch : chain vact.   (* _to_value, regenerated *)

  Definition vact_of (v : pyval) : option vact := first_match vch (cls_of v) FlPlain (truthy_of v) (maplike_of v).

  Fixpoint to_value (v : pyval) : pyval :=
    match vact_of v with
    | Some VMap => match v with PDict kv => PDict (map (fun p => (fst p, to_value (snd p))) kv) | _ => v end
    | Some VRow => match v with PDict kv => PRow (map (fun p => (key_name (fst p), fix_dec (to_value (snd p)))) kv) | _ => v end
    | Some VList => match v with PList l | PTuple l => PList (map to_value l) | _ => v end
    | Some VStripTz => match v with PTs us _ => PTs us None | _ => v end
    | Some VFloat => match v with PDec f => PFloat f | _ => v end
    | None => v
    end.
End ToValue.


Fixpoint std_to_value (v : pyval) : pyval :=
  match v with
  | PDict kv =>
      if maplike_of v then PDict (map (fun p => (fst p, std_to_value (snd p))) kv)
      else PRow (map (fun p => (key_name (fst p), fix_dec (std_to_value (snd p)))) kv)
  | PList l => match l with [] => v | _ => PList (map std_to_value l) end
  | PTuple l => match l with [] => v | _ => PList (map std_to_value l) end
  | PTs us _ => PTs us None
  | PDec f => PFloat f
  | _ => v
  end.

Definition std_vact (c : pycls) (truthy maplike : bool) : option vact :=
  match c with
  | CDict => if maplike then Some VMap else Some VRow
  | CList | CSet | CTuple | CRow => if truthy then Some VList else None
  | CDatetime => Some VStripTz
  | CDecimal => Some VFloat
  | _ => None
  end.

Definition tovalue_chain_ok (vch : chain vact) : bool :=
  forallb (fun c => forallb (fun tr => forallb (fun ml =>
     oeqb vact_eqb (first_match vch c FlPlain tr ml) (std_vact c tr ml)) [true; false]) [true; false]) all_cls.

Lemma oeqb_vact a b : oeqb vact_eqb a b = true -> a = b.
Proof. destruct a as [x|], b as [y|]; cbn; try congruence. destruct x, y; cbn; congruence. Qed.

Lemma in_bools b : In b [true; false].
Proof. destruct b; cbn; tauto. Qed.

Lemma tovalue_chain_ok_act vch : tovalue_chain_ok vch = true ->
  forall v, vact_of vch v = std_vact (cls_of v) (truthy_of v) (maplike_of v).
Proof.
  intros H v. unfold tovalue_chain_ok in H. rewrite forallb_forall in H.
  specialize (H _ (in_all_cls (cls_of v))). rewrite forallb_forall in H.
  specialize (H _ (in_bools (truthy_of v))). rewrite forallb_forall in H.
  apply oeqb_vact. apply H. apply in_bools.
Qed.

Lemma to_value_is_std vch : tovalue_chain_ok vch = true -> forall v, to_value vch v = std_to_value v.
Proof.
  intro Hok. pose proof (tovalue_chain_ok_act vch Hok) as K.
  apply pyval_rect'.
  - cbn [to_value]; rewrite K; reflexivity.
  - intro b; cbn [to_value]; rewrite K; reflexivity.
  - intro z; cbn [to_value]; rewrite K; reflexivity.
  - intro f; cbn [to_value]; rewrite K; reflexivity.
  - intro f; cbn [to_value]; rewrite K; reflexivity.
  - intro s; cbn [to_value]; rewrite K; reflexivity.
  - intro b; cbn [to_value]; rewrite K; reflexivity.
  - intro d; cbn [to_value]; rewrite K; reflexivity.
  - intros us tz; cbn [to_value]; rewrite K; reflexivity.
  - intros l H. cbn [to_value]. rewrite K. destruct l as [|x r]; [reflexivity|].
    cbn [cls_of truthy_of std_vact std_to_value]. f_equal. apply map_ext_Forall; exact H.
  - intros l H. cbn [to_value]. rewrite K. destruct l as [|x r]; [reflexivity|].
    cbn [cls_of truthy_of std_vact std_to_value]. f_equal. apply map_ext_Forall; exact H.
  - intros fs H. cbn [to_value]. rewrite K. destruct fs; reflexivity.
  - intros kv H. cbn [to_value]. rewrite K. cbn [cls_of std_vact std_to_value].
    destruct (maplike_of (PDict kv)); f_equal.
    + apply map_ext_Forall. eapply Forall_impl; [|exact H]. cbn. intros a [_ Ha]. rewrite Ha. reflexivity.
    + apply map_ext_Forall. eapply Forall_impl; [|exact H]. cbn. intros a [_ Ha]. rewrite Ha. reflexivity.
Qed.

(* ------------------------------------------------------------------------------------------------ *)
(** * The pipeline and the round trip *)

(** the value the property promises: the same value; an aware timestamp comes back as the naive UTC wall clock
    (PySpark's TimestampType under a UTC session does the same) *)
Fixpoint expected (v : pyval) : pyval :=
  match v with
  | PTs us (Some _) => PTs us None
  | PList l => PList (map expected l)
  | PRow fs => PRow (map_snd expected fs)
  | _ => v
  end.

Fixpoint nodup_keys {A} (fs : list (ustr * A)) : bool :=
  match fs with
  | [] => true
  | (k, _) :: r => negb (existsb (fun p => ueqb k (fst p)) r) && nodup_keys r
  end.

Definition has_field {A} (k : ustr) (fs : list (ustr * A)) : bool := existsb (fun p => ueqb (fst p) k) fs.

(** values the theorem speaks about: any string, 64-bit ints, any float, non-empty structs with distinct
    lower-case field names that are not the pair key/value; tuples, dicts and Decimals are not in the property's list *)
Fixpoint supp (v : pyval) : bool :=
  match v with
  | PInt z => int64 z
  | PList l => forallb supp l
  | PRow fs => (negb (match fs with [] => true | _ => false end) && keys_lower fs) && nodup_keys fs
               && negb (has_field s_key fs && has_field s_value fs)
               && forallb (fun kv => supp (snd kv)) fs
  | PTuple _ | PDict _ | PDec _ => false
  | _ => true
  end.

Lemma keys_lower_map_snd {A B} (f : A -> B) (fs : list (ustr * A)) : keys_lower (map_snd f fs) = keys_lower fs.
Proof.
  unfold keys_lower. induction fs as [|[k x] r IH]; [reflexivity|]. cbn [map_snd forallb fst].
  fold (@map_snd ustr _ _ f). rewrite IH. reflexivity.
Qed.

(** the engine value a supported value's literal denotes ... *)
Fixpoint D0 (v : pyval) : dbval :=
  match v with
  | PNone => DNull | PBool b => DBool b | PInt z => DInt z
  | PFloat (FFin b e) => if e then DDbl (FFin b e) else DDec (FFin b e)
  | PFloat f => DDbl f
  | PDec f => DDec f
  | PStr s => DStr s | PBytes b => DBlob b | PDate d => DDate d
  | PTs us None => DTs us | PTs us (Some _) => DTsTz us
  | PList l => DList (map D0 l)
  | PRow fs => DStruct (map_snd D0 fs)
  | PTuple _ | PDict _ => DNull
  end.

(** ... and what CAST to its type makes of it *)
Fixpoint D1 (v : pyval) : dbval :=
  match v with
  | PNone => DNull | PBool b => DBool b | PInt z => DInt z
  | PFloat f => DDbl f
  | PDec f => DDec f
  | PStr s => DStr s | PBytes b => DBlob b | PDate d => DDate d
  | PTs us _ => DTsTz us
  | PList l => DList (map D1 l)
  | PRow fs => DStruct (map_snd D1 fs)
  | PTuple _ | PDict _ => DNull
  end.

Lemma lookup_map_snd {A B} (f : A -> B) k (fs : list (ustr * A)) :
  lookup k (map_snd f fs) = option_map f (lookup k fs).
Proof.
  induction fs as [|[k' x] r IH]; [reflexivity|]. cbn [map_snd lookup]. fold (@map_snd ustr _ _ f).
  destruct (ueqb k k'); [reflexivity|exact IH].
Qed.

Lemma existsb_ueqb_false k (r : list (ustr * pyval)) k' x :
  existsb (fun p => ueqb k (fst p)) r = false -> In (k', x) r -> ueqb k' k = false.
Proof.
  intros H Hin. destruct (ueqb k' k) eqn:E; [|reflexivity]. apply ueqb_eq in E; subst k'.
  assert (existsb (fun p => ueqb k (fst p)) r = true); [|congruence].
  apply existsb_exists. exists (k, x). split; [assumption|apply ueqb_refl].
Qed.

Lemma expected_not_dec v : supp v = true -> fix_dec (expected v) = expected v.
Proof. destruct v; try reflexivity; try discriminate. destruct tz; reflexivity. Qed.

Section Roundtrip.
  Variable eleaf : lit -> option dbval.
  Variable cleaf : sty -> dbval -> option dbval.
  Variable pleaf : dbval -> pyval.
  Hypothesis ENV : env_ok eleaf cleaf pleaf.

  Lemma eval_nested : forall v, supp v = true -> eval eleaf (std_lit_nested v) = Some (D0 v).
  Proof.
    apply (pyval_rect' (fun v => supp v = true -> eval eleaf (std_lit_nested v) = Some (D0 v))).
    - intros _. apply (e_null _ _ _ ENV).
    - intros b _. apply (e_bool _ _ _ ENV).
    - intros z H. apply (e_int _ _ _ ENV). exact H.
    - intros f H. destruct f as [|n|b e]; [apply (e_nan _ _ _ ENV)|apply (e_inf _ _ _ ENV)|apply (e_num _ _ _ ENV)].
    - intros f H. discriminate.
    - intros s _. cbn [std_lit_nested eval D0]. destruct (nul_free s) eqn:E; [apply (e_str _ _ _ ENV); exact E|apply (e_strnul _ _ _ ENV)].
    - intros b _. apply (e_hex _ _ _ ENV).
    - intros d _. apply (e_date _ _ _ ENV).
    - intros us tz _. destruct tz; [apply (e_tstz _ _ _ ENV)|apply (e_ts _ _ _ ENV)].
    - intros l IH H. cbn [supp] in H. cbn [std_lit_nested eval D0].
      rewrite (mapo_map_Forall supp (eval eleaf) std_lit_nested D0 l IH H). reflexivity.
    - intros l _ H. discriminate.
    - intros fs IH H. cbn [supp] in H.
      apply andb_true_iff in H. destruct H as [H Hall]. apply andb_true_iff in H. destruct H as [H _].
      apply andb_true_iff in H. destruct H as [Hne _]. apply andb_true_iff in Hne. destruct Hne as [Hne Hlow].
      cbn [std_lit_nested D0].
      rewrite lower_keys_id by (rewrite keys_lower_map_snd; exact Hlow).
      cbn [eval].
      rewrite (mapo_snd_map_Forall supp (eval eleaf) std_lit_nested D0 fs IH Hall).
      destruct fs as [|[k0 x0] r0]; [discriminate|]. reflexivity.
    - intros kv _ H. discriminate.
  Qed.

  (** CAST of a value that fits the column type *)
  Lemma cast_nested : forall v t, supp v = true -> fits v t = true -> cast cleaf t (D0 v) = Some (D1 v).
  Proof.
    apply (pyval_rect' (fun v => forall t, supp v = true -> fits v t = true -> cast cleaf t (D0 v) = Some (D1 v))).
    - intros t _ _. destruct t; reflexivity.
    - intros b t _ H. destruct t; try discriminate. apply (c_bool _ _ _ ENV).
    - intros z t _ H. destruct t; try discriminate. apply (c_int _ _ _ ENV). exact H.
    - intros f t Hs H. destruct t; try discriminate. destruct f as [|n|b e].
      + apply (c_dbl _ _ _ ENV).
      + apply (c_dbl _ _ _ ENV).
      + cbn [D0 D1]. destruct e; cbn [cast]; [apply (c_dbl _ _ _ ENV)|apply (c_dec _ _ _ ENV)].
    - intros f t Hs _. discriminate.
    - intros s t _ H. destruct t; try discriminate. apply (c_str _ _ _ ENV).
    - intros b t _ H. destruct t; try discriminate. apply (c_blob _ _ _ ENV).
    - intros d t _ H. destruct t; try discriminate. apply (c_date _ _ _ ENV).
    - intros us tz t _ H. destruct tz; destruct t; try discriminate; [apply (c_tstz _ _ _ ENV)|apply (c_ts _ _ _ ENV)].
    - intros l IH t Hs H. destruct t; try discriminate. cbn [fits] in H. cbn [supp] in Hs. cbn [D0 D1 cast].
      assert (E : mapo (cast cleaf t) (map D0 l) = Some (map D1 l)).
      { rewrite Forall_forall in IH. rewrite forallb_forall in H, Hs.
        assert (F : Forall (fun x => true = true -> cast cleaf t (D0 x) = Some (D1 x)) l).
        { apply Forall_forall. intros x Hx _. apply IH; [exact Hx|apply Hs; exact Hx|apply H; exact Hx]. }
        apply (mapo_map_Forall (fun _ => true) (cast cleaf t) D0 D1 l F).
        apply forallb_forall. reflexivity. }
      rewrite E. reflexivity.
    - intros l _ t Hs _. discriminate.
    - intros fs IH t Hs H. destruct t as [| | | | | | | | | | | | |ts|]; try discriminate.
      cbn [supp] in Hs.
      apply andb_true_iff in Hs. destruct Hs as [Hs Hall]. apply andb_true_iff in Hs. destruct Hs as [Hs _].
      apply andb_true_iff in Hs. destruct Hs as [Hne Hnd].
      cbn [D0 D1].
      assert (Hc : cast cleaf (TStruct ts) (DStruct (map_snd D0 fs)) =
              option_map DStruct ((fix go (ts : list (ustr * sty)) : option (list (ustr * dbval)) :=
                 match ts with
                 | [] => Some []
                 | (k, t') :: r =>
                     match lookup k (map_snd D0 fs) with
                     | Some x => match cast cleaf t' x, go r with Some y, Some ys => Some ((k, y) :: ys) | _, _ => None end
                     | None => None
                     end
                 end) ts)) by reflexivity.
      rewrite Hc. clear Hc.
      match goal with |- option_map DStruct ?a = Some (DStruct ?b) => assert (E : a = Some b); [|rewrite E; reflexivity] end.
      (* generalise: iterate over a suffix [gs] of the fields whose entries are all found in the full list *)
      cbn [fits] in H.
      assert (G : forall (gs : list (ustr * pyval)) (ts : list (ustr * sty)),
                 (forall k x, In (k, x) gs -> lookup k fs = Some x /\ supp x = true /\
                                            (forall t, supp x = true -> fits x t = true -> cast cleaf t (D0 x) = Some (D1 x))) ->
                 (fix go (fs0 : list (ustr * pyval)) (ts0 : list (ustr * sty)) : bool :=
                    match fs0, ts0 with
                    | [], [] => true
                    | (k, x) :: fr, (k', t') :: tr => ueqb k k' && fits x t' && go fr tr
                    | _, _ => false
                    end) gs ts = true ->
                 (fix go (ts0 : list (ustr * sty)) : option (list (ustr * dbval)) :=
                    match ts0 with
                    | [] => Some []
                    | (k, t') :: r =>
                        match lookup k (map_snd D0 fs) with
                        | Some x => match cast cleaf t' x, go r with Some y, Some ys => Some ((k, y) :: ys) | _, _ => None end
                        | None => None
                        end
                    end) ts = Some (map_snd D1 gs)).
      { induction gs as [|[k x] gr IHg]; intros ts0 Hin Hf.
        - destruct ts0; [reflexivity|discriminate].
        - destruct ts0 as [|[k' t'] tr]; [discriminate|].
          apply andb_true_iff in Hf. destruct Hf as [Hf Hrest]. apply andb_true_iff in Hf. destruct Hf as [Hk Hfx].
          apply ueqb_eq in Hk. subst k'.
          destruct (Hin k x (or_introl eq_refl)) as [Hl [Hsx Hcx]].
          rewrite lookup_map_snd, Hl. cbn [option_map]. rewrite (Hcx t' Hsx Hfx).
          rewrite (IHg tr); [reflexivity| |exact Hrest].
          intros k2 x2 H2. apply Hin. right. exact H2. }
      apply G; [|exact H].
      intros k x Hin. rewrite Forall_forall in IH. rewrite forallb_forall in Hall.
      split; [|split].
      + clear -Hnd Hin. induction fs as [|[k1 x1] r IHr]; [destruct Hin|].
        cbn [nodup_keys] in Hnd. apply andb_true_iff in Hnd. destruct Hnd as [Hn1 Hn2]. apply negb_true_iff in Hn1.
        destruct Hin as [Hin|Hin].
        * inversion Hin; subst. cbn [lookup]. rewrite ueqb_refl. reflexivity.
        * cbn [lookup]. rewrite (existsb_ueqb_false _ _ _ _ Hn1 Hin). apply IHr; assumption.
      + apply (Hall (k, x) Hin).
      + apply (IH (k, x) Hin).
    - intros kv _ t Hs _. discriminate.
  Qed.

  Lemma dict_get_struct (fs : list (ustr * dbval)) (f : dbval -> pyval) k :
    has_field k fs = false -> dict_get k (map (fun kv => (PStr (fst kv), f (snd kv))) fs) = None.
  Proof.
    unfold dict_get, has_field. induction fs as [|[k1 x1] r IH]; [reflexivity|].
    cbn [map existsb find fst snd]. intro H. apply orb_false_iff in H. destruct H as [H1 H2].
    rewrite H1. apply IH. exact H2.
  Qed.

  Lemma maplike_struct_false (fs : list (ustr * dbval)) (f : dbval -> pyval) :
    (has_field s_key fs && has_field s_value fs) = false ->
    maplike_of (PDict (map (fun kv => (PStr (fst kv), f (snd kv))) fs)) = false.
  Proof.
    intro H. unfold maplike_of, maplike_gen.
    assert (B : existsb (fun p => negb (is_pstr (fst p))) (map (fun kv => (PStr (fst kv), f (snd kv))) fs) = false).
    { clear H. induction fs as [|[k1 x1] r IH]; [reflexivity|]. cbn [map existsb fst is_pstr negb orb]. exact IH. }
    rewrite B. rewrite orb_false_r.
    apply andb_false_iff in H. destruct H as [H|H]; rewrite (dict_get_struct fs f _ H).
    - apply andb_false_r.
    - destruct (dict_get s_key _) as [[]|]; apply andb_false_r.
  Qed.

  Lemma has_field_map_snd {A B} (f : A -> B) k (fs : list (ustr * A)) : has_field k (map_snd f fs) = has_field k fs.
  Proof.
    unfold has_field. induction fs as [|[k1 x1] r IH]; [reflexivity|]. cbn [map_snd existsb fst].
    fold (@map_snd ustr _ _ f). rewrite IH. reflexivity.
  Qed.

  (** fetch + _to_value after the cast *)
  Lemma client_nested : forall v, supp v = true -> std_to_value (client pleaf (D1 v)) = expected v.
  Proof.
    apply (pyval_rect' (fun v => supp v = true -> std_to_value (client pleaf (D1 v)) = expected v)).
    - intros _. cbn. rewrite (p_null _ _ _ ENV). reflexivity.
    - intros b _. cbn. rewrite (p_bool _ _ _ ENV). reflexivity.
    - intros z _. cbn. rewrite (p_int _ _ _ ENV). reflexivity.
    - intros f _. cbn. rewrite (p_dbl _ _ _ ENV). reflexivity.
    - intros f H. discriminate.
    - intros s _. cbn. rewrite (p_str _ _ _ ENV). reflexivity.
    - intros b _. cbn. rewrite (p_blob _ _ _ ENV). reflexivity.
    - intros d _. cbn. rewrite (p_date _ _ _ ENV). reflexivity.
    - intros us tz _. cbn [D1 client]. rewrite (p_tstz _ _ _ ENV). destruct tz; reflexivity.
    - intros l IH H. cbn [supp] in H. cbn [D1 client expected]. rewrite map_map.
      destruct l as [|x r]; [reflexivity|].
      cbn [map std_to_value]. f_equal.
      rewrite Forall_forall in IH. rewrite forallb_forall in H.
      change (std_to_value (client pleaf (D1 x)) :: map std_to_value (map (fun x0 => client pleaf (D1 x0)) r))
        with (map std_to_value (map (fun x0 => client pleaf (D1 x0)) (x :: r))).
      rewrite map_map. change (expected x :: map expected r) with (map expected (x :: r)).
      apply map_ext_in. intros a Ha. apply IH; [exact Ha|apply H; exact Ha].
    - intros l _ H. discriminate.
    - intros fs IH H. cbn [supp] in H.
      apply andb_true_iff in H. destruct H as [H Hall]. apply andb_true_iff in H. destruct H as [_ Hkv].
      apply negb_true_iff in Hkv.
      cbn [D1 client expected]. cbn [std_to_value].
      rewrite maplike_struct_false by (rewrite !has_field_map_snd; exact Hkv).
      f_equal. rewrite Forall_forall in IH. rewrite forallb_forall in Hall.
      clear Hkv. induction fs as [|[k x] r IHr]; [reflexivity|].
      cbn [map_snd map fst snd key_name]. fold (@map_snd ustr _ _ D1). fold (@map_snd ustr _ _ expected).
      pose proof (IH (k, x) (or_introl eq_refl) (Hall (k, x) (or_introl eq_refl))) as Hx. cbn [snd] in Hx.
      rewrite Hx. rewrite (expected_not_dec x (Hall (k, x) (or_introl eq_refl))).
      f_equal. apply IHr; intros.
      + apply IH; [right; assumption|assumption].
      + apply Hall; right; assumption.
    - intros kv _ H. discriminate.
  Qed.


End Roundtrip.

(* ------------------------------------------------------------------------------------------------ *)
(** * A reference environment: shows that [env_ok] is satisfiable and lets the check evaluate the model *)

Definition int32 (z : Z) : bool := (-2147483648 <=? z) && (z <=? 2147483647).

Definition ref_eleaf (l : lit) : option dbval :=
  match l with
  | LNull => Some DNull
  | LBool b => Some (DBool b)
  | LInt z => Some (DInt z)
  | LNum (FFin b e) => Some (if e then DDbl (FFin b e) else DDec (FFin b e))
  | LNum _ => None                                  (* the bare words inf / nan are column references *)
  | LStr s => if nul_free s then Some (DStr s) else None
  | LStrNul s => Some (DStr s)
  | LCastStr s TFloat => if ueqb s s_NaN then Some (DFlt FNaN) else None     (* the unrepaired NaN literal *)
  | LCastStr s TDouble => if ueqb s s_NaN then Some (DDbl FNaN)
                          else if ueqb s (s_inf false) then Some (DDbl (FInf false))
                          else if ueqb s (s_inf true) then Some (DDbl (FInf true)) else None
  | LHex b => Some (DBlob b)
  | LDate d => Some (DDate d)
  | LTs us => Some (DTs us)
  | LTsTz us => Some (DTsTz us)
  | _ => None
  end.

Definition ref_cleaf (t : sty) (d : dbval) : option dbval :=
  match t, d with
  | TBool, DBool _ => Some d
  | TBigint, DInt z => if int64 z then Some d else None
  | TInt, DInt z => if int32 z then Some d else None
  | TDouble, DDec f | TDouble, DDbl f | TDouble, DFlt f => Some (DDbl f)
  | TDouble, DStr s => if ueqb s (s_inf false) then Some (DDbl (FInf false))
                       else if ueqb s (s_inf true) then Some (DDbl (FInf true)) else None
  | TString, DStr _ => Some d
  | TBinary, DBlob _ => Some d
  | TDate, DDate _ => Some d
  | TTimestamp, DTs us | TTimestamp, DTsTz us | TTimestampTz, DTs us | TTimestampTz, DTsTz us => Some (DTsTz us)
  | _, _ => None
  end.

Definition ref_pleaf (d : dbval) : pyval :=
  match d with
  | DNull => PNone | DBool b => PBool b | DInt z => PInt z | DDec f => PDec f
  | DDbl f | DFlt f => PFloat f
  | DStr s => PStr s | DBlob b => PBytes b | DDate d => PDate d
  | DTs us => PTs us None | DTsTz us => PTs us (Some 0)
  | DList _ | DStruct _ => PNone
  end.

Lemma ref_env_ok : env_ok ref_eleaf ref_cleaf ref_pleaf.
Proof.
  constructor; try reflexivity.
  - intros s H. cbn. rewrite H. reflexivity.
  - intros [|]; reflexivity.
  - intros z H. cbn. rewrite H. reflexivity.
Qed.

(* ------------------------------------------------------------------------------------------------ *)
(** * Whole columns: DuckDB gives all members of a VALUES column (and all elements of a list, across rows) ONE
      type.  The NaN literal is CAST('NaN' AS REAL): where it meets numerals without exponent (DECIMAL) and no
      numeral with exponent (DOUBLE), the common type is REAL and the numerals are rounded to float32. *)

Inductive nshape :=
| NSnone
| NSleaf (has_real has_dbl : bool)
| NSlist (s : nshape)
| NSstruct (fs : list (ustr * nshape)).

Fixpoint merge (a b : nshape) {struct a} : nshape :=
  match a, b with
  | NSnone, x => x
  | x, NSnone => x
  | NSleaf r d, NSleaf r' d' => NSleaf (r || r') (d || d')
  | NSlist x, NSlist y => NSlist (merge x y)
  | NSstruct xs, NSstruct ys =>
      NSstruct ((fix go (xs : list (ustr * nshape)) : list (ustr * nshape) :=
                   match xs with
                   | [] => []
                   | (k, x) :: r => (k, match lookup k ys with Some y => merge x y | None => x end) :: go r
                   end) xs)
  | x, _ => x
  end.

Fixpoint shape_of (d : dbval) : nshape :=
  match d with
  | DDec _ => NSleaf false false
  | DFlt _ => NSleaf true false
  | DDbl _ => NSleaf false true
  | DList l => NSlist (fold_right (fun x acc => merge (shape_of x) acc) NSnone l)
  | DStruct fs => NSstruct (map_snd shape_of fs)
  | _ => NSnone
  end.

Section Column.
  Variable eleaf : lit -> option dbval.
  Variable cleaf : sty -> dbval -> option dbval.
  Variable pleaf : dbval -> pyval.
  Variable round32 : fval -> fval.      (* environment: DuckDB's CAST of the DECIMAL numeral of f to REAL, read back as a double (a float32 near f, not always the nearest); no hypothesis is needed about it *)
  Variable L : pyval -> lit.            (* how a cell is written: cell_lit (createDataFrame) or lit_top (select(lit(v))) *)
  Variable vch : chain vact.

  Fixpoint unify (s : nshape) (d : dbval) {struct d} : dbval :=
    match d with
    | DDec f => match s with
                | NSleaf _ true => DDbl f
                | NSleaf true false => DFlt (round32 f)
                | _ => d
                end
    | DFlt f => match s with NSleaf _ true => DDbl f | _ => d end
    | DList l => match s with NSlist s' => DList (map (unify s') l) | _ => d end
    | DStruct fs =>
        match s with
        | NSstruct ss => DStruct (map (fun kv => (fst kv, match lookup (fst kv) ss with
                                                          | Some s' => unify s' (snd kv)
                                                          | None => snd kv
                                                          end)) fs)
        | _ => d
        end
    | _ => d
    end.

  Definition col_shape (ds : list dbval) : nshape := fold_right (fun x acc => merge (shape_of x) acc) NSnone ds.

  (** a list constructor gives its elements one type first (inside out), before the column does *)
  Fixpoint lun (d : dbval) : dbval :=
    match d with
    | DList l => let l' := map lun l in DList (map (unify (col_shape l')) l')
    | DStruct fs => DStruct (map_snd lun fs)
    | _ => d
    end.

  Definition finish (ty : option sty) (d : dbval) : option pyval :=
    match (match ty with Some t => cast cleaf (lower_ty t) d | None => Some d end) with
    | None => None
    | Some d' => Some (fix_dec (to_value vch (client pleaf d')))
    end.

  (** all cells of one column of one createDataFrame; one failing cell fails the statement *)
  Definition col_pipeline (ty : option sty) (vs : list pyval) : list (option pyval) :=
    match mapo (eval eleaf) (map L vs) with
    | None => map (fun _ => None) vs
    | Some ds0 =>
        let ds := map lun ds0 in
        let sh := col_shape ds in
        match mapo (fun d => finish ty (unify sh d)) ds with
        | Some rs => map Some rs
        | None => map (fun _ => None) vs
        end
    end.
End Column.

(** no REAL anywhere *)
Fixpoint real_free (s : nshape) : bool :=
  match s with
  | NSleaf r _ => negb r
  | NSlist s' => real_free s'
  | NSstruct fs => forallb (fun kv => real_free (snd kv)) fs
  | NSnone => true
  end.
(** ... and no DOUBLE either: nothing to unify *)
Fixpoint dec_only (s : nshape) : bool :=
  match s with
  | NSleaf r d => negb r && negb d
  | NSlist s' => dec_only s'
  | NSstruct fs => forallb (fun kv => dec_only (snd kv)) fs
  | NSnone => true
  end.

Section NshapeInd.
  Variable P : nshape -> Prop.
  Hypothesis Hnone : P NSnone.
  Hypothesis Hleaf : forall r d, P (NSleaf r d).
  Hypothesis Hlist : forall s, P s -> P (NSlist s).
  Hypothesis Hstruct : forall fs, Forall (fun kv => P (snd kv)) fs -> P (NSstruct fs).
  Fixpoint nshape_rect' (s : nshape) : P s :=
    match s with
    | NSnone => Hnone
    | NSleaf r d => Hleaf r d
    | NSlist s' => Hlist s' (nshape_rect' s')
    | NSstruct fs => Hstruct fs ((fix go (l : list (ustr * nshape)) : Forall (fun kv => P (snd kv)) l :=
                        match l with [] => Forall_nil _ | x :: r => Forall_cons _ (nshape_rect' (snd x)) (go r) end) fs)
    end.
End NshapeInd.

Section DbvalInd.
  Variable P : dbval -> Prop.
  Hypothesis Hleaf : forall d, match d with DList _ | DStruct _ => True | _ => P d end.
  Hypothesis Hlist : forall l, Forall P l -> P (DList l).
  Hypothesis Hstruct : forall fs, Forall (fun kv => P (snd kv)) fs -> P (DStruct fs).
  Fixpoint dbval_rect' (d : dbval) : P d :=
    match d as d0 return P d0 with
    | DList l => Hlist l ((fix go (l : list dbval) : Forall P l :=
                             match l with [] => Forall_nil _ | x :: r => Forall_cons _ (dbval_rect' x) (go r) end) l)
    | DStruct fs => Hstruct fs ((fix go (l : list (ustr * dbval)) : Forall (fun kv => P (snd kv)) l :=
                             match l with [] => Forall_nil _ | x :: r => Forall_cons _ (dbval_rect' (snd x)) (go r) end) fs)
    | DNull => Hleaf DNull | DBool b => Hleaf (DBool b) | DInt z => Hleaf (DInt z) | DDec f => Hleaf (DDec f)
    | DDbl f => Hleaf (DDbl f) | DFlt f => Hleaf (DFlt f) | DStr s => Hleaf (DStr s) | DBlob b => Hleaf (DBlob b)
    | DDate x => Hleaf (DDate x) | DTs x => Hleaf (DTs x) | DTsTz x => Hleaf (DTsTz x)
    end.
End DbvalInd.

Lemma lookup_forallb {A} (p : A -> bool) k (fs : list (ustr * A)) x :
  forallb (fun kv => p (snd kv)) fs = true -> lookup k fs = Some x -> p x = true.
Proof.
  induction fs as [|[k' y] r IH]; [discriminate|]. cbn [forallb lookup snd]. intros H L.
  apply andb_true_iff in H. destruct H as [H1 H2]. destruct (ueqb k k'); [inversion L; subst; exact H1|exact (IH H2 L)].
Qed.

Lemma merge_real_free : forall a b, real_free a = true -> real_free b = true -> real_free (merge a b) = true.
Proof.
  apply (nshape_rect' (fun a => forall b, real_free a = true -> real_free b = true -> real_free (merge a b) = true)).
  - intros b _ Hb. exact Hb.
  - intros r d b Ha Hb. destruct b; cbn [merge]; try exact Ha.
    cbn [real_free] in *. apply negb_true_iff in Ha, Hb. rewrite Ha, Hb. reflexivity.
  - intros s IH b Ha Hb. destruct b; cbn [merge]; try exact Ha. cbn [real_free] in *. apply IH; assumption.
  - intros fs IH b Ha Hb. destruct b as [| | |ys]; cbn [merge]; try exact Ha.
    cbn [real_free] in *. induction IH as [|[k x] r Hx _ IHr]; [reflexivity|].
    cbn [forallb snd] in Ha. apply andb_true_iff in Ha. destruct Ha as [Ha1 Ha2]. cbn [snd] in Hx.
    cbn [forallb snd]. rewrite (IHr Ha2). rewrite andb_true_r.
    destruct (lookup k ys) as [y|] eqn:L; [|exact Ha1].
    apply Hx; [exact Ha1|]. exact (lookup_forallb real_free k ys y Hb L).
Qed.

(** no REAL value anywhere *)
Fixpoint flt_free (d : dbval) : bool :=
  match d with
  | DFlt _ => false
  | DList l => forallb flt_free l
  | DStruct fs => forallb (fun kv => flt_free (snd kv)) fs
  | _ => true
  end.

(** DECIMAL numerals read as the DOUBLE they denote: what a CAST to DOUBLE cannot tell apart *)
Fixpoint dn (d : dbval) : dbval :=
  match d with
  | DDec f => DDbl f
  | DList l => DList (map dn l)
  | DStruct fs => DStruct (map_snd dn fs)
  | _ => d
  end.

Lemma shape_real_free : forall d, flt_free d = true -> real_free (shape_of d) = true.
Proof.
  apply (dbval_rect' (fun d => flt_free d = true -> real_free (shape_of d) = true)).
  - intro d. destruct d; try exact I; try (intros; reflexivity). intro H; discriminate.
  - intros l IH H. cbn [flt_free] in H. cbn [shape_of real_free].
    induction IH as [|x r Hx _ IHr]; [reflexivity|].
    cbn [forallb] in H. apply andb_true_iff in H. destruct H as [H1 H2].
    cbn [fold_right]. apply merge_real_free; [exact (Hx H1)|exact (IHr H2)].
  - intros fs IH H. cbn [flt_free] in H. cbn [shape_of real_free].
    induction IH as [|[k x] r Hx _ IHr]; [reflexivity|].
    cbn [forallb snd] in H. apply andb_true_iff in H. destruct H as [H1 H2]. cbn [snd] in Hx.
    cbn [map_snd forallb snd]. fold (@map_snd ustr _ _ shape_of). rewrite (Hx H1). exact (IHr H2).
Qed.

Lemma col_shape_real_free : forall ds, forallb flt_free ds = true -> real_free (col_shape ds) = true.
Proof.
  induction ds as [|d r IH]; [reflexivity|]. cbn [forallb]. intro H. apply andb_true_iff in H. destruct H as [H1 H2].
  unfold col_shape. cbn [fold_right]. apply merge_real_free; [exact (shape_real_free d H1)|exact (IH H2)].
Qed.

Section Unify.
  Variable round32 : fval -> fval.

  Lemma unify_ok : forall d s, flt_free d = true -> real_free s = true ->
    flt_free (unify round32 s d) = true /\ dn (unify round32 s d) = dn d.
  Proof.
    apply (dbval_rect' (fun d => forall s, flt_free d = true -> real_free s = true ->
                            flt_free (unify round32 s d) = true /\ dn (unify round32 s d) = dn d)).
    - intro d. destruct d; try exact I; try (intros s0 H0 _; split; [exact H0|reflexivity]).
      + intros s _ Hr. cbn [unify]. destruct s as [|r dd| |]; try (split; reflexivity).
        destruct r, dd; try discriminate; split; reflexivity.
      + intros s0 H0 _. discriminate.
    - intros l IH s H Hr. cbn [unify]. destruct s as [| |s'|]; try (split; [exact H|reflexivity]).
      cbn [real_free] in Hr. cbn [flt_free] in H. rewrite Forall_forall in IH. rewrite forallb_forall in H.
      split.
      + cbn [flt_free]. apply forallb_forall. intros y Hy. apply in_map_iff in Hy. destruct Hy as [x [E Hx]]. subst y.
        apply (IH x Hx s' (H x Hx) Hr).
      + cbn [dn]. f_equal. rewrite map_map. apply map_ext_in. intros x Hx. apply (IH x Hx s' (H x Hx) Hr).
    - intros fs IH s H Hr. cbn [unify]. destruct s as [| | |ss]; try (split; [exact H|reflexivity]).
      cbn [real_free] in Hr. cbn [flt_free] in H.
      assert (G : forall k x, In (k, x) fs ->
                  flt_free (match lookup k ss with Some s' => unify round32 s' x | None => x end) = true /\
                  dn (match lookup k ss with Some s' => unify round32 s' x | None => x end) = dn x).
      { intros k x Hin. rewrite Forall_forall in IH. rewrite forallb_forall in H.
        destruct (lookup k ss) as [s'|] eqn:L.
        - apply (IH (k, x) Hin s' (H (k, x) Hin)). exact (lookup_forallb real_free k ss s' Hr L).
        - split; [exact (H (k, x) Hin)|reflexivity]. }
      clear IH H. split.
      + cbn [flt_free]. induction fs as [|[k x] r IHr]; [reflexivity|].
        cbn [map forallb fst snd]. rewrite (proj1 (G k x (or_introl eq_refl))). cbn [andb].
        apply IHr. intros k2 x2 H2. apply G. right. exact H2.
      + cbn [dn]. f_equal. induction fs as [|[k x] r IHr]; [reflexivity|].
        cbn [map map_snd fst snd]. fold (@map_snd ustr _ _ dn). rewrite (proj2 (G k x (or_introl eq_refl))).
        f_equal. apply IHr. intros k2 x2 H2. apply G. right. exact H2.
  Qed.

  Lemma lun_ok : forall d, flt_free d = true -> flt_free (lun round32 d) = true /\ dn (lun round32 d) = dn d.
  Proof.
    apply (dbval_rect' (fun d => flt_free d = true -> flt_free (lun round32 d) = true /\ dn (lun round32 d) = dn d)).
    - intro d. destruct d; try exact I; intros H0; split; try exact H0; reflexivity.
    - intros l IH H. cbn [flt_free] in H. cbn [lun]. rewrite Forall_forall in IH. rewrite forallb_forall in H.
      assert (F : forallb flt_free (map (lun round32) l) = true).
      { apply forallb_forall. intros y Hy. apply in_map_iff in Hy. destruct Hy as [x [E Hx]]. subst y. apply (IH x Hx (H x Hx)). }
      pose proof (col_shape_real_free _ F) as Hr.
      set (sh := col_shape (map (lun round32) l)) in *. rewrite forallb_forall in F.
      split.
      + cbn [flt_free]. apply forallb_forall. intros y Hy. apply in_map_iff in Hy. destruct Hy as [x [E Hx]]. subst y.
        apply (unify_ok x sh (F x Hx) Hr).
      + cbn [dn]. f_equal. rewrite !map_map. apply map_ext_in. intros x Hx.
        rewrite (proj2 (unify_ok (lun round32 x) sh (F _ (in_map _ _ _ Hx)) Hr)). apply (IH x Hx (H x Hx)).
    - intros fs IH H. cbn [flt_free] in H. cbn [lun]. rewrite Forall_forall in IH. rewrite forallb_forall in H.
      split.
      + cbn [flt_free]. induction fs as [|[k x] r IHr]; [reflexivity|].
        cbn [map_snd forallb snd]. fold (@map_snd ustr _ _ (lun round32)).
        pose proof (proj1 (IH (k, x) (or_introl eq_refl) (H (k, x) (or_introl eq_refl)))) as E1. cbn [snd] in E1.
        rewrite E1. cbn [andb].
        apply IHr; intros y Hy; [apply IH|apply H]; right; exact Hy.
      + cbn [dn]. f_equal. induction fs as [|[k x] r IHr]; [reflexivity|].
        cbn [map_snd]. fold (@map_snd ustr _ _ (lun round32)). fold (@map_snd ustr _ _ dn).
        pose proof (proj2 (IH (k, x) (or_introl eq_refl) (H (k, x) (or_introl eq_refl)))) as E2. cbn [snd] in E2.
        rewrite E2.
        f_equal. apply IHr; intros y Hy; [apply IH|apply H]; right; exact Hy.
  Qed.
End Unify.

Lemma D0_flt_free : forall v, flt_free (D0 v) = true.
Proof.
  apply (pyval_rect' (fun v => flt_free (D0 v) = true)); try (intros; reflexivity).
  - intros f. destruct f as [|n|b e]; [reflexivity|reflexivity|destruct e; reflexivity].
  - intros us tz. destruct tz; reflexivity.
  - intros l IH. cbn [D0 flt_free]. rewrite Forall_forall in IH.
    apply forallb_forall. intros y Hy. apply in_map_iff in Hy. destruct Hy as [x [E Hx]]. subst y. apply (IH x Hx).
  - intros fs IH. cbn [D0 flt_free].
    induction IH as [|[k x] r Hx _ IHr]; [reflexivity|]. cbn [snd] in Hx.
    cbn [map_snd forallb snd]. fold (@map_snd ustr _ _ D0). rewrite Hx. exact IHr.
Qed.

Lemma mapo_map {A B C} (f : B -> option C) (g : A -> B) l : mapo f (map g l) = mapo (fun x => f (g x)) l.
Proof. induction l as [|x r IH]; [reflexivity|]. cbn [map mapo]. fold (mapo f). fold (mapo (fun x => f (g x))). rewrite IH. reflexivity. Qed.

Lemma lookup_dn k (gs : list (ustr * dbval)) : lookup k (map_snd dn gs) = option_map dn (lookup k gs).
Proof. apply lookup_map_snd. Qed.

Lemma fits_lower : forall v t, supp v = true -> fits v t = true -> fits v (lower_ty t) = true.
Proof.
  apply (pyval_rect' (fun v => forall t, supp v = true -> fits v t = true -> fits v (lower_ty t) = true)).
  - intros t _ _. reflexivity.
  - intros b t _ H. destruct t; try discriminate; exact H.
  - intros z t _ H. destruct t; try discriminate; exact H.
  - intros f t _ H. destruct t; try discriminate; exact H.
  - intros f t _ H. discriminate.
  - intros x t _ H. destruct t; try discriminate; exact H.
  - intros x t _ H. destruct t; try discriminate; exact H.
  - intros x t _ H. destruct t; try discriminate; exact H.
  - intros us tz t _ H. destruct tz; destruct t; try discriminate; exact H.
  - intros l IH t Hs H. destruct t; try discriminate. cbn [fits lower_ty] in *. cbn [supp] in Hs.
    rewrite Forall_forall in IH. rewrite forallb_forall in *. intros x Hx. apply IH; [exact Hx|apply Hs; exact Hx|apply H; exact Hx].
  - intros l _ t _ H. discriminate.
  - intros fs IH t Hs H. destruct t as [| | | | | | | | | | | | |ts|]; try discriminate.
    cbn [supp] in Hs.
    apply andb_true_iff in Hs. destruct Hs as [Hs Hall]. apply andb_true_iff in Hs. destruct Hs as [Hs _].
    apply andb_true_iff in Hs. destruct Hs as [Hs _]. apply andb_true_iff in Hs. destruct Hs as [_ Hlow].
    cbn [fits lower_ty] in *. revert ts H. unfold keys_lower in Hlow.
    induction IH as [|[k x] r Hx _ IHr]; intros ts H.
    + destruct ts; [reflexivity|discriminate].
    + destruct ts as [|[k' t'] tr]; [discriminate|].
      apply andb_true_iff in H. destruct H as [H Hr]. apply andb_true_iff in H. destruct H as [Hk Hf].
      cbn [forallb fst snd] in Hlow, Hall. apply andb_true_iff in Hlow. destruct Hlow as [Hl1 Hl2].
      apply andb_true_iff in Hall. destruct Hall as [Ha1 Ha2]. cbn [snd] in Hx.
      apply ueqb_eq in Hk. subst k'. apply ueqb_eq in Hl1. rewrite Hl1, ueqb_refl, (Hx t' Ha1 Hf). cbn [andb].
      apply IHr; assumption.
  - intros kv _ t _ H. discriminate.
Qed.

Lemma std_to_value_not_dec v f : std_to_value v = PDec f -> False.
Proof.
  destruct v as [| | | | | | | |us tz|l|l|fs|kv]; cbn [std_to_value]; try discriminate.
  - destruct l; discriminate.
  - destruct l; discriminate.
  - destruct (maplike_of (PDict kv)); discriminate.
Qed.

Section ColumnRoundtrip.
  Variable eleaf : lit -> option dbval.
  Variable cleaf : sty -> dbval -> option dbval.
  Variable pleaf : dbval -> pyval.
  Variable round32 : fval -> fval.
  Hypothesis ENV : env_ok eleaf cleaf pleaf.

  (** CAST cannot tell a REAL-free engine value from the value's own literal when they agree up to reading
      DECIMAL numerals as DOUBLE *)
  Lemma cast_equiv : forall v t d, supp v = true -> fits v t = true ->
    flt_free d = true -> dn d = dn (D0 v) -> cast cleaf t d = Some (D1 v).
  Proof.
    apply (pyval_rect' (fun v => forall t d, supp v = true -> fits v t = true ->
                                  flt_free d = true -> dn d = dn (D0 v) -> cast cleaf t d = Some (D1 v))).
    - intros t d _ _ _ E. destruct d; try discriminate. destruct t; reflexivity.
    - intros b t d Hs Hf _ E. destruct d; try discriminate. inversion E; subst. exact (cast_nested _ _ _ ENV (PBool b) t Hs Hf).
    - intros z t d Hs Hf _ E. destruct d; try discriminate. inversion E; subst. exact (cast_nested _ _ _ ENV (PInt z) t Hs Hf).
    - intros f t d Hs Hf _ E. destruct t; try discriminate.
      assert (E' : dn d = DDbl f) by (rewrite E; destruct f as [|n|b e]; [reflexivity|reflexivity|destruct e; reflexivity]).
      destruct d; try discriminate; inversion E'; subst; cbn [cast D1]; [apply (c_dec _ _ _ ENV)|apply (c_dbl _ _ _ ENV)].
    - intros f t d Hs _ _ _. discriminate.
    - intros s t d Hs Hf _ E. destruct d; try discriminate. inversion E; subst. exact (cast_nested _ _ _ ENV (PStr s) t Hs Hf).
    - intros b t d Hs Hf _ E. destruct d; try discriminate. inversion E; subst. exact (cast_nested _ _ _ ENV (PBytes b) t Hs Hf).
    - intros x t d Hs Hf _ E. destruct d; try discriminate. inversion E; subst. exact (cast_nested _ _ _ ENV (PDate x) t Hs Hf).
    - intros us tz t d Hs Hf _ E. destruct tz; destruct d; try discriminate; inversion E; subst;
        exact (cast_nested _ _ _ ENV (PTs us _) t Hs Hf).
    - (* list *)
      intros l IH t d Hs Hf Hfl E. destruct t; try discriminate.
      destruct d as [| | | | | | | | | | |xs|]; try discriminate.
      cbn [D0 dn] in E. inversion E as [E']. clear E. rewrite map_map in E'.
      cbn [fits] in Hf. cbn [supp] in Hs. cbn [flt_free] in Hfl. cbn [D1 cast].
      assert (G : mapo (cast cleaf t) xs = Some (map D1 l)).
      { revert xs E' Hfl. induction IH as [|x r Hx _ IHr]; intros xs E' Hfl.
        - destruct xs; [reflexivity|discriminate].
        - destruct xs as [|y ys]; [discriminate|]. cbn [map] in E'. inversion E' as [[E1 E2]].
          cbn [forallb] in Hs, Hf, Hfl.
          apply andb_true_iff in Hs. destruct Hs as [Hs1 Hs2]. apply andb_true_iff in Hf. destruct Hf as [Hf1 Hf2].
          apply andb_true_iff in Hfl. destruct Hfl as [Hl1 Hl2].
          cbn [mapo map]. fold (mapo (cast cleaf t)).
          rewrite (Hx t y Hs1 Hf1 Hl1 E1), (IHr Hs2 Hf2 ys E2 Hl2). reflexivity. }
      rewrite G. reflexivity.
    - intros l _ t d Hs _ _ _. discriminate.
    - (* struct *)
      intros fs IH t d Hs Hf Hfl E.
      destruct t as [| | | | | | | | | | | | |ts|]; try discriminate.
      destruct d as [| | | | | | | | | | | |gs]; try discriminate.
      cbn [D0 dn] in E. inversion E as [E']. clear E.
      cbn [supp] in Hs.
      apply andb_true_iff in Hs. destruct Hs as [Hs Hall]. apply andb_true_iff in Hs. destruct Hs as [Hs _].
      apply andb_true_iff in Hs. destruct Hs as [Hne Hnd].
      cbn [flt_free] in Hfl. cbn [D1].
      assert (Hc : cast cleaf (TStruct ts) (DStruct gs) =
              option_map DStruct ((fix go (ts : list (ustr * sty)) : option (list (ustr * dbval)) :=
                 match ts with
                 | [] => Some []
                 | (k, t') :: r =>
                     match lookup k gs with
                     | Some x => match cast cleaf t' x, go r with Some y, Some ys => Some ((k, y) :: ys) | _, _ => None end
                     | None => None
                     end
                 end) ts)) by reflexivity.
      rewrite Hc. clear Hc.
      match goal with |- option_map DStruct ?a = Some (DStruct ?b) => assert (G0 : a = Some b); [|rewrite G0; reflexivity] end.
      cbn [fits] in Hf.
      assert (G : forall (hs : list (ustr * pyval)) (ts : list (ustr * sty)),
                 (forall k x, In (k, x) hs -> lookup k fs = Some x /\ In (k, x) fs) ->
                 (fix go (fs0 : list (ustr * pyval)) (ts0 : list (ustr * sty)) : bool :=
                    match fs0, ts0 with
                    | [], [] => true
                    | (k, x) :: fr, (k', t') :: tr => ueqb k k' && fits x t' && go fr tr
                    | _, _ => false
                    end) hs ts = true ->
                 (fix go (ts0 : list (ustr * sty)) : option (list (ustr * dbval)) :=
                    match ts0 with
                    | [] => Some []
                    | (k, t') :: r =>
                        match lookup k gs with
                        | Some x => match cast cleaf t' x, go r with Some y, Some ys => Some ((k, y) :: ys) | _, _ => None end
                        | None => None
                        end
                    end) ts = Some (map_snd D1 hs)).
      { rewrite Forall_forall in IH. rewrite forallb_forall in Hall.
        induction hs as [|[k x] hr IHg]; intros ts0 Hin Hf0.
        - destruct ts0; [reflexivity|discriminate].
        - destruct ts0 as [|[k' t'] tr]; [discriminate|].
          apply andb_true_iff in Hf0. destruct Hf0 as [Hf0 Hrest]. apply andb_true_iff in Hf0. destruct Hf0 as [Hk Hfx].
          apply ueqb_eq in Hk. subst k'.
          destruct (Hin k x (or_introl eq_refl)) as [Hl Hinfs].
          assert (Lk : option_map dn (lookup k gs) = Some (dn (D0 x))).
          { rewrite <- lookup_dn, E', lookup_dn, lookup_map_snd, Hl. reflexivity. }
          destruct (lookup k gs) as [y|] eqn:Ly; [|discriminate]. cbn [option_map] in Lk. inversion Lk as [Ey].
          rewrite (IH (k, x) Hinfs t' y (Hall (k, x) Hinfs) Hfx (lookup_forallb flt_free k gs y Hfl Ly) Ey).
          rewrite (IHg tr); [reflexivity| |exact Hrest].
          intros k2 x2 H2. apply Hin. right. exact H2. }
      apply G; [|exact Hf].
      intros k x Hin. split; [|exact Hin].
      clear -Hnd Hin. induction fs as [|[k1 x1] r IHr]; [destruct Hin|].
      cbn [nodup_keys] in Hnd. apply andb_true_iff in Hnd. destruct Hnd as [Hn1 Hn2]. apply negb_true_iff in Hn1.
      destruct Hin as [Hin|Hin].
      + inversion Hin; subst. cbn [lookup]. rewrite ueqb_refl. reflexivity.
      + cbn [lookup]. rewrite (existsb_ueqb_false _ _ _ _ Hn1 Hin). apply IHr; assumption.
    - intros kv _ t d Hs _ _ _. discriminate.
  Qed.

  (** fetch + _to_value of a REAL-free engine value that agrees with the value's own literal up to reading
      DECIMAL numerals as DOUBLE (no CAST in between): a Decimal anywhere becomes a float *)
  Lemma client_equiv : forall v d, supp v = true -> flt_free d = true -> dn d = dn (D0 v) ->
    fix_dec (std_to_value (client pleaf d)) = expected v.
  Proof.
    apply (pyval_rect' (fun v => forall d, supp v = true -> flt_free d = true -> dn d = dn (D0 v) ->
                                  fix_dec (std_to_value (client pleaf d)) = expected v)).
    - intros d _ _ E. destruct d; try discriminate. cbn. rewrite (p_null _ _ _ ENV). reflexivity.
    - intros b d _ _ E. destruct d; try discriminate. inversion E; subst. cbn. rewrite (p_bool _ _ _ ENV). reflexivity.
    - intros z d _ _ E. destruct d; try discriminate. inversion E; subst. cbn. rewrite (p_int _ _ _ ENV). reflexivity.
    - intros f d _ _ E.
      assert (E' : dn d = DDbl f) by (rewrite E; destruct f as [|n|b e]; [reflexivity|reflexivity|destruct e; reflexivity]).
      destruct d; try discriminate; inversion E'; subst; cbn [client];
        [rewrite (p_dec _ _ _ ENV)|rewrite (p_dbl _ _ _ ENV)]; reflexivity.
    - intros f d Hs _ _. discriminate.
    - intros s d _ _ E. destruct d; try discriminate. inversion E; subst. cbn. rewrite (p_str _ _ _ ENV). reflexivity.
    - intros b d _ _ E. destruct d; try discriminate. inversion E; subst. cbn. rewrite (p_blob _ _ _ ENV). reflexivity.
    - intros x d _ _ E. destruct d; try discriminate. inversion E; subst. cbn. rewrite (p_date _ _ _ ENV). reflexivity.
    - intros us tz d _ _ E. destruct tz; destruct d; try discriminate; inversion E; subst; cbn [client];
        [rewrite (p_tstz _ _ _ ENV)|rewrite (p_ts _ _ _ ENV)]; reflexivity.
    - (* list *)
      intros l IH d Hs Hfl E.
      destruct d as [| | | | | | | | | | |xs|]; try discriminate.
      cbn [D0 dn] in E. inversion E as [E']. clear E. rewrite map_map in E'.
      cbn [supp] in Hs. cbn [flt_free] in Hfl. cbn [client expected].
      assert (G : map (fun x => std_to_value (client pleaf x)) xs = map expected l).
      { revert xs E' Hfl. induction IH as [|x r Hx _ IHr]; intros xs E' Hfl.
        - destruct xs; [reflexivity|discriminate].
        - destruct xs as [|y ys]; [discriminate|]. cbn [map] in E'. inversion E' as [[E1 E2]].
          cbn [forallb] in Hs, Hfl.
          apply andb_true_iff in Hs. destruct Hs as [Hs1 Hs2]. apply andb_true_iff in Hfl. destruct Hfl as [Hl1 Hl2].
          cbn [map]. rewrite (IHr Hs2 ys E2 Hl2). f_equal.
          pose proof (Hx y Hs1 Hl1 E1) as Hy.
          (* a Decimal is converted by _to_value itself, so fix_dec has nothing left to do *)
          destruct (std_to_value (client pleaf y)) eqn:Ev; try exact Hy.
          exfalso. exact (std_to_value_not_dec _ _ Ev). }
      destruct xs as [|y ys].
      + destruct l; [reflexivity|discriminate].
      + cbn [map std_to_value fix_dec]. rewrite <- G. rewrite map_map. reflexivity.
    - intros l _ d Hs _ _. discriminate.
    - (* struct *)
      intros fs IH d Hs Hfl E.
      destruct d as [| | | | | | | | | | | |gs]; try discriminate.
      cbn [D0 dn] in E. inversion E as [E']. clear E.
      cbn [supp] in Hs.
      apply andb_true_iff in Hs. destruct Hs as [Hs Hall]. apply andb_true_iff in Hs. destruct Hs as [_ Hkv].
      apply negb_true_iff in Hkv.
      cbn [flt_free] in Hfl. cbn [client expected std_to_value].
      assert (Hk : has_field s_key gs = has_field s_key fs /\ has_field s_value gs = has_field s_value fs).
      { rewrite <- (has_field_map_snd dn s_key gs), <- (has_field_map_snd dn s_value gs), E', !has_field_map_snd. split; reflexivity. }
      destruct Hk as [Hk1 Hk2].
      rewrite maplike_struct_false by (rewrite Hk1, Hk2; exact Hkv).
      cbn [fix_dec]. f_equal.
      clear Hkv Hk1 Hk2. revert gs E' Hfl. rewrite forallb_forall in Hall.
      induction IH as [|[k x] r Hx _ IHr]; intros gs E' Hfl.
      + destruct gs as [|[k' y] gr]; [reflexivity|cbn in E'; discriminate].
      + destruct gs as [|[k' y] gr]; [cbn in E'; discriminate|]. cbn [map_snd] in E'.
        fold (@map_snd ustr _ _ dn) in E'. fold (@map_snd ustr _ _ D0) in E'. inversion E' as [[Ek Ey Er]].
        cbn [forallb snd] in Hfl. apply andb_true_iff in Hfl. destruct Hfl as [Hl1 Hl2]. cbn [snd] in Hx.
        cbn [map map_snd fst snd key_name]. fold (@map_snd ustr _ _ expected).
        rewrite (Hx y (Hall (k, x) (or_introl eq_refl)) Hl1 Ey). f_equal.
        apply IHr; [intros z Hz; apply Hall; right; exact Hz|exact Er|exact Hl2].
    - intros kv _ d Hs _ _. discriminate.
  Qed.

  Variable L : pyval -> lit.
  Variable vch : chain vact.
  Hypothesis VOK : tovalue_chain_ok vch = true.

  (** members of a typed column: supported and of the column's type *)
  Definition col_member (t : sty) (v : pyval) : bool := supp v && fits v t.

  Lemma unified_ok : forall s v, real_free s = true ->
    flt_free (unify round32 s (lun round32 (D0 v))) = true /\ dn (unify round32 s (lun round32 (D0 v))) = dn (D0 v).
  Proof.
    intros s v Hr.
    pose proof (lun_ok round32 (D0 v) (D0_flt_free v)) as [L1 L2].
    pose proof (unify_ok round32 (lun round32 (D0 v)) s L1 Hr) as [U1 U2].
    split; [exact U1|exact (eq_trans U2 L2)].
  Qed.

  Lemma finish_member : forall s t v, real_free s = true -> col_member t v = true ->
    finish cleaf pleaf vch (Some t) (unify round32 s (lun round32 (D0 v))) = Some (expected v).
  Proof.
    intros s t v Hr Hm. unfold col_member in Hm. apply andb_true_iff in Hm. destruct Hm as [Hs Hf].
    destruct (unified_ok s v Hr) as [U1 U2]. unfold finish.
    rewrite (cast_equiv _ (lower_ty t) _ Hs (fits_lower v t Hs Hf) U1 U2), (to_value_is_std vch VOK), (client_nested _ _ _ ENV _ Hs),
            (expected_not_dec _ Hs). reflexivity.
  Qed.

  Lemma finish_untyped : forall s v, real_free s = true -> supp v = true ->
    finish cleaf pleaf vch None (unify round32 s (lun round32 (D0 v))) = Some (expected v).
  Proof.
    intros s v Hr Hs. destruct (unified_ok s v Hr) as [U1 U2]. unfold finish.
    rewrite (to_value_is_std vch VOK), (client_equiv _ _ Hs U1 U2). reflexivity.
  Qed.

  (** the common part: every cell is written as its own nested literal, the column is unified, then finished *)
  Lemma column_generic : forall ty vs,
    (forall v, In v vs -> supp v = true /\ L v = std_lit_nested v) ->
    (forall s v, In v vs -> real_free s = true ->
                 finish cleaf pleaf vch ty (unify round32 s (lun round32 (D0 v))) = Some (expected v)) ->
    col_pipeline eleaf cleaf pleaf round32 L vch ty vs = map (fun v => Some (expected v)) vs.
  Proof.
    intros ty vs Hv Hfin. unfold col_pipeline.
    assert (E1 : mapo (eval eleaf) (map L vs) = Some (map D0 vs)).
    { rewrite mapo_map. clear Hfin. induction vs as [|v r IH]; [reflexivity|].
      cbn [mapo map]. fold (mapo (fun x => eval eleaf (L x))).
      destruct (Hv v (or_introl eq_refl)) as [Hs El].
      rewrite El, (eval_nested _ _ _ ENV v Hs), IH; [reflexivity|].
      intros y Hy. apply Hv. right. exact Hy. }
    rewrite E1. cbv zeta.
    assert (Hr : real_free (col_shape (map (lun round32) (map D0 vs))) = true).
    { apply col_shape_real_free. apply forallb_forall. intros y Hy.
      apply in_map_iff in Hy. destruct Hy as [d [E Hd]]. subst y.
      apply in_map_iff in Hd. destruct Hd as [v [E Hv']]. subst d.
      apply (lun_ok round32 (D0 v)). apply D0_flt_free. }
    generalize dependent (col_shape (map (lun round32) (map D0 vs))). intros sh Hr.
    assert (E2 : forall l, (forall v, In v l -> In v vs) ->
                 mapo (fun d => finish cleaf pleaf vch ty (unify round32 sh d)) (map (lun round32) (map D0 l))
                 = Some (map expected l)).
    { intros l Hl. rewrite map_map, mapo_map. induction l as [|v r IH]; [reflexivity|].
      cbn [mapo map]. fold (mapo (fun x => finish cleaf pleaf vch ty (unify round32 sh (lun round32 (D0 x))))).
      rewrite (Hfin sh v (Hl v (or_introl eq_refl)) Hr), IH; [reflexivity|].
      intros y Hy. apply Hl. right. exact Hy. }
    rewrite (E2 vs (fun v H => H)). rewrite map_map. reflexivity.
  Qed.

  (** column_roundtrip: every cell of a typed column comes back as promised *)
  Theorem column_roundtrip : forall t vs,
    (forall v, In v vs -> L v = std_lit_nested v) ->
    forallb (col_member t) vs = true ->
    col_pipeline eleaf cleaf pleaf round32 L vch (Some t) vs = map (fun v => Some (expected v)) vs.
  Proof.
    intros t vs HL H. rewrite forallb_forall in H. apply column_generic.
    - intros v Hv. pose proof (H v Hv) as Hm. unfold col_member in Hm. apply andb_true_iff in Hm. split; [apply Hm|apply HL; exact Hv].
    - intros s v Hv Hr. apply finish_member; [exact Hr|apply H; exact Hv].
  Qed.

  (** a column without a CAST (no value from which a type could be inferred, or select(lit(v))) *)
  Theorem column_untyped : forall vs,
    (forall v, In v vs -> L v = std_lit_nested v) ->
    forallb supp vs = true ->
    col_pipeline eleaf cleaf pleaf round32 L vch None vs = map (fun v => Some (expected v)) vs.
  Proof.
    intros vs HL H. rewrite forallb_forall in H. apply column_generic.
    - intros v Hv. split; [apply H; exact Hv|apply HL; exact Hv].
    - intros s v Hv Hr. apply finish_untyped; [exact Hr|apply H; exact Hv].
  Qed.
End ColumnRoundtrip.

(** select(lit(v)) writes every supported value as its nested literal, except an infinity (the STRING 'inf') *)
Definition untyped_ok (v : pyval) : bool :=
  match v with PFloat (FInf _) => false | _ => supp v end.

(** reference REAL rounding: a table supplied with the case (observed on a raw DuckDB connection: bits of f ->
    bits of CAST(CAST(<numeral of f> AS REAL) AS DOUBLE), and whether its repr uses an exponent) *)
Definition ref_round32 (tbl : list (Z * (Z * bool))) (f : fval) : fval :=
  match f with
  | FFin b _ => match find (fun e => Z.eqb (fst e) b) tbl with
                | Some (_, (b', e')) => FFin b' e'
                | None => f
                end
  | _ => f
  end.

(* ------------------------------------------------------------------------------------------------ *)
(** * The string literals written for a str value: the value itself, or its NUL-free pieces *)

Fixpoint split0_aux (cur : ustr) (s : ustr) : list ustr :=      (* cur = the current piece, reversed *)
  match s with
  | [] => match cur with [] => [] | _ => [rev cur] end
  | c :: t => if (c =? 0)%N then (match cur with [] => [] | _ => [rev cur] end) ++ split0_aux [] t
              else split0_aux (c :: cur) t
  end.
Definition split0 (s : ustr) : list ustr := split0_aux [] s.

Definition str_pieces (s : ustr) : list ustr := if nul_free s then [s] else split0 s.

Lemma nul_free_app a b : nul_free (a ++ b) = nul_free a && nul_free b.
Proof. induction a as [|c t IH]; [reflexivity|]. cbn [app nul_free]. rewrite IH. apply andb_assoc. Qed.

Lemma nul_free_rev a : nul_free (rev a) = nul_free a.
Proof.
  induction a as [|c t IH]; [reflexivity|]. cbn [rev nul_free]. rewrite nul_free_app, IH. cbn [nul_free].
  rewrite andb_true_r. apply andb_comm.
Qed.

Lemma split0_aux_nul_free : forall s cur, nul_free cur = true -> forallb nul_free (split0_aux cur s) = true.
Proof.
  induction s as [|c t IH]; intros cur H.
  - cbn [split0_aux]. destruct cur; [reflexivity|]. cbn [forallb]. rewrite nul_free_rev, H. reflexivity.
  - cbn [split0_aux]. destruct (c =? 0)%N eqn:E.
    + rewrite forallb_app. apply andb_true_iff. split; [|exact (IH [] eq_refl)].
      destruct cur; [reflexivity|]. cbn [forallb]. rewrite nul_free_rev, H. reflexivity.
    + apply IH. cbn [nul_free]. rewrite E, H. reflexivity.
Qed.

(** no string literal written for a str value contains U+0000 -- whatever the value *)
Theorem str_pieces_nul_free : forall s, forallb nul_free (str_pieces s) = true.
Proof.
  intro s. unfold str_pieces. destruct (nul_free s) eqn:E.
  - cbn [forallb]. rewrite E. reflexivity.
  - apply split0_aux_nul_free. reflexivity.
Qed.
