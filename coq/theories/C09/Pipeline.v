(** C09 -- literal construction (lit / Column._lit / exp.convert), the engine + client as Section variables
    constrained by an explicit record of hypotheses, result conversion (_to_value / _create_row), and the
    value round trip by structural induction over nested values. *)
From Coq Require Import NArith ZArith List Bool Lia.
From SF Require Import C09.Lex C09.Values.
Import ListNotations.
Open Scope Z_scope.

(* ------------------------------------------------------------------------------------------------ *)
(** * The literal fragment of sqlglot trees that lit() produces *)

Inductive lit :=
| LNull
| LBool (b : bool)
| LInt (z : Z)
| LNum (f : fval)               (* Literal.number(repr of a float): a decimal numeral, or the bare word inf *)
| LStr (s : ustr)               (* Literal.string: rendered by Lex.render_string *)
| LCastStr (s : ustr) (t : sty) (* CAST('s' AS t) *)
| LHex (b : list N)             (* FROM_HEX('..') *)
| LDate (d : Z)                 (* CAST('<isoformat>' AS DATE) *)
| LTs (us : Z)                  (* CAST('<isoformat, sep=space>' AS TIMESTAMP) *)
| LTsTz (us : Z)                (* CAST('<isoformat in UTC>+00:00' AS TIMESTAMPTZ) *)
| LArr (l : list lit)
| LStruct (fs : list (ustr * lit))
| LTuple (l : list lit)
| LMap (ks vs : list lit)
| LErr.                         (* the Python code raised *)

Definition s_NaN : ustr := [78; 97; 78]%N.
Definition s_inf (neg : bool) : ustr := if neg then [45; 105; 110; 102]%N else [105; 110; 102]%N.

(** branches of Column._lit *)
Inductive lact := AStruct | AArray | ATuple | AMap | ANanCast | ATsCast.
(** branches of functions.lit *)
Inductive fact := FStrLit | FInfStr.

Definition lact_eqb (a b : lact) : bool :=
  match a, b with
  | AStruct, AStruct | AArray, AArray | ATuple, ATuple | AMap, AMap | ANanCast, ANanCast | ATsCast, ATsCast => true
  | _, _ => false
  end.
Definition fact_eqb (a b : fact) : bool :=
  match a, b with FStrLit, FStrLit | FInfStr, FInfStr => true | _, _ => false end.

Definition elements (v : pyval) : list pyval :=
  match v with PList l | PTuple l => l | PRow fs => map snd fs | _ => [] end.

(** sqlglot's exp.convert on non-container values (environment; my definition, order as in sqlglot 26.14:
    str, bool, None/NaN, Number, bytes, datetime, date) *)
Definition convert_leaf (v : pyval) : lit :=
  match v with
  | PNone => LNull
  | PBool b => LBool b
  | PInt z => LInt z
  | PFloat FNaN => LNull
  | PFloat f => LNum f
  | PDec f => LNum f
  | PStr s => LStr s
  | PBytes b => LHex b
  | PDate d => LDate d
  | PTs us None => LTs us
  | PTs us (Some _) => LTsTz us
  | _ => LErr
  end.

Section Lit.
  Variable lch : chain lact.     (* Column._lit, regenerated *)
  Variable fch : chain fact.     (* functions.lit, regenerated *)

  Definition lact_of (v : pyval) : option lact := first_match lch (cls_of v) (flav_of v) true false.

  (** Column._lit (recursive calls are cls._lit, not lit) *)
  Fixpoint lit_nested (v : pyval) : lit :=
    match lact_of v with
    | Some AStruct =>
        match v with
        | PRow fs => LStruct ((fix go (fs : list (ustr * pyval)) : list (ustr * lit) :=
                                 match fs with [] => [] | (k, x) :: r => (k, lit_nested x) :: go r end) fs)
        | _ => LErr
        end
    | Some AArray =>
        match v with
        | PList l | PTuple l => LArr ((fix go (l : list pyval) : list lit :=
                                         match l with [] => [] | x :: r => lit_nested x :: go r end) l)
        | PRow fs => LArr ((fix go (fs : list (ustr * pyval)) : list lit :=
                              match fs with [] => [] | (_, x) :: r => lit_nested x :: go r end) fs)
        | _ => LErr
        end
    | Some ATuple =>
        match v with
        | PList l | PTuple l => LTuple ((fix go (l : list pyval) : list lit :=
                                           match l with [] => [] | x :: r => lit_nested x :: go r end) l)
        | PRow fs => LTuple ((fix go (fs : list (ustr * pyval)) : list lit :=
                                match fs with [] => [] | (_, x) :: r => lit_nested x :: go r end) fs)
        | _ => LErr
        end
    | Some AMap =>
        match v with
        | PDict kv => LMap ((fix go (kv : list (pyval * pyval)) : list lit :=
                               match kv with [] => [] | (k, _) :: r => lit_nested k :: go r end) kv)
                           ((fix go (kv : list (pyval * pyval)) : list lit :=
                               match kv with [] => [] | (_, x) :: r => lit_nested x :: go r end) kv)
        | _ => LErr
        end
    | Some ANanCast => LCastStr s_NaN TFloat
    | Some ATsCast => match v with PTs us None => LTs us | PTs us (Some _) => LTsTz us | _ => LErr end
    | None =>
        match v with
        | PList l | PTuple l => LErr   (* exp.convert would recurse with convert, not _lit: not reachable when the chain is right *)
        | PRow _ | PDict _ => LErr
        | _ => convert_leaf v
        end
    end.

  (** functions.lit: str -> Literal.string; +-inf -> Literal.string(str(value)); else Column(value) -> _lit *)
  Definition lit_top (v : pyval) : lit :=
    match first_match fch (cls_of v) (flav_of v) true false with
    | Some FStrLit => match v with PStr s => LStr s | _ => LErr end
    | Some FInfStr => match v with PFloat (FInf neg) => LStr (s_inf neg) | _ => LErr end
    | None => match v with PStr _ => LErr (* Column('text') parses a column name *) | _ => lit_nested v end
    end.
End Lit.

(** the pattern-matching definitions the property needs *)
Fixpoint std_lit_nested (v : pyval) : lit :=
  match v with
  | PRow fs => LStruct ((fix go (fs : list (ustr * pyval)) : list (ustr * lit) :=
                           match fs with [] => [] | (k, x) :: r => (k, std_lit_nested x) :: go r end) fs)
  | PList l => LArr ((fix go (l : list pyval) : list lit :=
                        match l with [] => [] | x :: r => std_lit_nested x :: go r end) l)
  | PTuple l => LTuple ((fix go (l : list pyval) : list lit :=
                           match l with [] => [] | x :: r => std_lit_nested x :: go r end) l)
  | PDict kv => LMap ((fix go (kv : list (pyval * pyval)) : list lit :=
                         match kv with [] => [] | (k, _) :: r => std_lit_nested k :: go r end) kv)
                     ((fix go (kv : list (pyval * pyval)) : list lit :=
                         match kv with [] => [] | (_, x) :: r => std_lit_nested x :: go r end) kv)
  | PFloat FNaN => LCastStr s_NaN TFloat
  | _ => convert_leaf v
  end.

Definition std_lit_top (v : pyval) : lit :=
  match v with
  | PFloat (FInf neg) => LStr (s_inf neg)
  | _ => std_lit_nested v
  end.

Definition std_lact (c : pycls) (fl : flav) : option lact :=
  match c with
  | CRow => Some AStruct | CList | CSet => Some AArray | CTuple => Some ATuple | CDict => Some AMap
  | CDatetime => Some ATsCast
  | CFloat => match fl with FlNan => Some ANanCast | _ => None end
  | _ => None
  end.
Definition std_fact (c : pycls) (fl : flav) : option fact :=
  match c with
  | CStr => Some FStrLit
  | CFloat => match fl with FlInf => Some FInfStr | _ => None end
  | _ => None
  end.

Definition oeqb {A} (eqb : A -> A -> bool) (a b : option A) : bool :=
  match a, b with Some x, Some y => eqb x y | None, None => true | _, _ => false end.

Definition all_flav := [FlPlain; FlNan; FlInf].
Definition lit_chain_ok (lch : chain lact) : bool :=
  forallb (fun c => forallb (fun fl => oeqb lact_eqb (first_match lch c fl true false) (std_lact c fl)) all_flav) all_cls.
Definition litfn_chain_ok (fch : chain fact) : bool :=
  forallb (fun c => forallb (fun fl => oeqb fact_eqb (first_match fch c fl true false) (std_fact c fl)) all_flav) all_cls.

Lemma oeqb_lact a b : oeqb lact_eqb a b = true -> a = b.
Proof. destruct a as [x|], b as [y|]; cbn; try congruence. destruct x, y; cbn; congruence. Qed.
Lemma oeqb_fact a b : oeqb fact_eqb a b = true -> a = b.
Proof. destruct a as [x|], b as [y|]; cbn; try congruence. destruct x, y; cbn; congruence. Qed.

Lemma in_all_cls c : In c all_cls.
Proof. destruct c; cbn; tauto. Qed.
Lemma in_all_flav f : In f all_flav.
Proof. destruct f; cbn; tauto. Qed.

Lemma lit_chain_ok_act lch : lit_chain_ok lch = true ->
  forall v, lact_of lch v = std_lact (cls_of v) (flav_of v).
Proof.
  intros H v. unfold lit_chain_ok in H. rewrite forallb_forall in H.
  specialize (H _ (in_all_cls (cls_of v))). rewrite forallb_forall in H.
  apply oeqb_lact. apply H. apply in_all_flav.
Qed.

Lemma lit_nested_is_std lch : lit_chain_ok lch = true -> forall v, lit_nested lch v = std_lit_nested v.
Proof.
  intro Hok. pose proof (lit_chain_ok_act lch Hok) as K.
  apply pyval_rect'.
  - cbn [lit_nested]; rewrite K; reflexivity.
  - intro b; cbn [lit_nested]; rewrite K; reflexivity.
  - intro z; cbn [lit_nested]; rewrite K; reflexivity.
  - intro f; cbn [lit_nested]; rewrite K; destruct f; reflexivity.
  - intro f; cbn [lit_nested]; rewrite K; reflexivity.
  - intro s; cbn [lit_nested]; rewrite K; reflexivity.
  - intro b; cbn [lit_nested]; rewrite K; reflexivity.
  - intro d; cbn [lit_nested]; rewrite K; reflexivity.
  - intros us tz; cbn [lit_nested]; rewrite K; destruct tz; reflexivity.
  - intros l H. cbn [lit_nested]. rewrite K. cbn [cls_of flav_of std_lact std_lit_nested]. f_equal.
    induction H as [|x r Hx Hr IH]; [reflexivity|]. rewrite Hx, IH. reflexivity.
  - intros l H. cbn [lit_nested]. rewrite K. cbn [cls_of flav_of std_lact std_lit_nested]. f_equal.
    induction H as [|x r Hx Hr IH]; [reflexivity|]. rewrite Hx, IH. reflexivity.
  - intros fs H. cbn [lit_nested]. rewrite K. cbn [cls_of flav_of std_lact std_lit_nested]. f_equal.
    induction H as [|[k x] r Hx Hr IH]; [reflexivity|]. cbn [snd] in Hx. rewrite Hx, IH. reflexivity.
  - intros kv H. cbn [lit_nested]. rewrite K. cbn [cls_of flav_of std_lact std_lit_nested]. f_equal.
    + induction H as [|[k x] r Hx Hr IH]; [reflexivity|]. cbn [fst snd] in Hx. destruct Hx as [Hk _]. rewrite Hk, IH. reflexivity.
    + induction H as [|[k x] r Hx Hr IH]; [reflexivity|]. cbn [fst snd] in Hx. destruct Hx as [_ Hx]. rewrite Hx, IH. reflexivity.
Qed.

Lemma lit_top_is_std lch fch : lit_chain_ok lch = true -> litfn_chain_ok fch = true ->
  forall v, lit_top lch fch v = std_lit_top v.
Proof.
  intros Hl Hf v. unfold lit_top.
  assert (K : first_match fch (cls_of v) (flav_of v) true false = std_fact (cls_of v) (flav_of v)).
  { unfold litfn_chain_ok in Hf. rewrite forallb_forall in Hf.
    specialize (Hf _ (in_all_cls (cls_of v))). rewrite forallb_forall in Hf.
    apply oeqb_fact. apply Hf. apply in_all_flav. }
  rewrite K. destruct v; cbn [cls_of flav_of std_fact std_lit_top]; try (apply lit_nested_is_std; assumption).
  - destruct f; cbn [flav_of std_fact std_lit_top]; try reflexivity; apply lit_nested_is_std; assumption.
  - reflexivity.
Qed.

(* ------------------------------------------------------------------------------------------------ *)
(** * Engine values, evaluation of literals, CAST, client conversion *)

Inductive dbval :=
| DNull | DBool (b : bool) | DInt (z : Z)
| DDec (f : fval)         (* DECIMAL holding the decimal numeral of f *)
| DDbl (f : fval) | DFlt (f : fval)
| DStr (s : ustr) | DBlob (b : list N) | DDate (d : Z) | DTs (us : Z) | DTsTz (us : Z)
| DList (l : list dbval) | DStruct (fs : list (ustr * dbval)).

Fixpoint lookup {A} (k : ustr) (fs : list (ustr * A)) : option A :=
  match fs with [] => None | (k', x) :: r => if ueqb k k' then Some x else lookup k r end.

Section Engine.
  (** environment: DuckDB's evaluation of leaf literals, its CAST on leaf values, the Python client's conversion
      of leaf values.  Constrained only by [env_ok] below. *)
  Variable eleaf : lit -> option dbval.
  Variable cleaf : sty -> dbval -> option dbval.
  Variable pleaf : dbval -> pyval.

  (** list and struct constructors evaluate their members (my definition of DuckDB's behaviour) *)
  Fixpoint eval (l : lit) : option dbval :=
    match l with
    | LArr xs =>
        option_map DList ((fix go (xs : list lit) : option (list dbval) :=
           match xs with
           | [] => Some []
           | x :: r => match eval x, go r with Some d, Some ds => Some (d :: ds) | _, _ => None end
           end) xs)
    | LStruct fs =>
        match fs with
        | [] => None
        | _ => option_map DStruct ((fix go (fs : list (ustr * lit)) : option (list (ustr * dbval)) :=
           match fs with
           | [] => Some []
           | (k, x) :: r => match eval x, go r with Some d, Some ds => Some ((k, d) :: ds) | _, _ => None end
           end) fs)
        end
    | LTuple _ | LMap _ _ | LErr => None          (* outside the modelled fragment *)
    | _ => eleaf l
    end.

  (** CAST: NULL stays NULL; lists element-wise; struct to struct BY NAME in the target's order (source fields
      that the target does not name are dropped -- DuckDB 1.2) *)
  Fixpoint cast (t : sty) (d : dbval) {struct t} : option dbval :=
    match d with
    | DNull => Some DNull
    | _ =>
      match t with
      | TArray t' =>
          match d with
          | DList xs =>
              option_map DList ((fix go (xs : list dbval) : option (list dbval) :=
                 match xs with
                 | [] => Some []
                 | x :: r => match cast t' x, go r with Some y, Some ys => Some (y :: ys) | _, _ => None end
                 end) xs)
          | _ => None
          end
      | TStruct ts =>
          match d with
          | DStruct fs =>
              option_map DStruct ((fix go (ts : list (ustr * sty)) : option (list (ustr * dbval)) :=
                 match ts with
                 | [] => Some []
                 | (k, t') :: r =>
                     match lookup k fs with
                     | Some x => match cast t' x, go r with Some y, Some ys => Some ((k, y) :: ys) | _, _ => None end
                     | None => None
                     end
                 end) ts)
          | _ => None
          end
      | TMap _ _ => None
      | _ => cleaf t d
      end
    end.

  (** the DuckDB Python client: LIST -> list, STRUCT -> dict keyed by field name *)
  Fixpoint client (d : dbval) : pyval :=
    match d with
    | DList xs => PList ((fix go (xs : list dbval) : list pyval :=
                            match xs with [] => [] | x :: r => client x :: go r end) xs)
    | DStruct fs => PDict ((fix go (fs : list (ustr * dbval)) : list (pyval * pyval) :=
                              match fs with [] => [] | (k, x) :: r => (PStr k, client x) :: go r end) fs)
    | _ => pleaf d
    end.

  (** What is assumed about the environment, sentence by sentence (each one is exercised by T3). *)
  Record env_ok : Prop := {
    e_null : eleaf LNull = Some DNull;
    e_bool : forall b, eleaf (LBool b) = Some (DBool b);
    e_int : forall z, int64 z = true -> eleaf (LInt z) = Some (DInt z);
    (* a numeral without exponent is read as DECIMAL, one with exponent as DOUBLE -- the double nearest to it,
       which for CPython's shortest repr is the original double *)
    e_num : forall b e, eleaf (LNum (FFin b e)) = Some (if e then DDbl (FFin b e) else DDec (FFin b e));
    (* = Lex.string_roundtrip read as a statement about the engine: a NUL-free literal denotes its content *)
    e_str : forall s, nul_free s = true -> eleaf (LStr s) = Some (DStr s);
    e_nan : eleaf (LCastStr s_NaN TFloat) = Some (DFlt FNaN);
    e_hex : forall b, eleaf (LHex b) = Some (DBlob b);
    e_date : forall d, eleaf (LDate d) = Some (DDate d);
    e_ts : forall us, eleaf (LTs us) = Some (DTs us);
    e_tstz : forall us, eleaf (LTsTz us) = Some (DTsTz us);
    c_bool : forall b, cleaf TBool (DBool b) = Some (DBool b);
    c_int : forall z, int64 z = true -> cleaf TBigint (DInt z) = Some (DInt z);
    (* DECIMAL numeral of repr(f) -> DOUBLE is correctly rounded, hence f *)
    c_dec : forall f, cleaf TDouble (DDec f) = Some (DDbl f);
    c_dbl : forall f, cleaf TDouble (DDbl f) = Some (DDbl f);
    c_flt_nan : cleaf TDouble (DFlt FNaN) = Some (DDbl FNaN);
    c_inf : forall neg, cleaf TDouble (DStr (s_inf neg)) = Some (DDbl (FInf neg));
    c_str : forall s, cleaf TString (DStr s) = Some (DStr s);
    c_blob : forall b, cleaf TBinary (DBlob b) = Some (DBlob b);
    c_date : forall d, cleaf TDate (DDate d) = Some (DDate d);
    (* Spark's "timestamp" is written TIMESTAMPTZ for DuckDB; session time zone UTC *)
    c_ts : forall us, cleaf TTimestamp (DTs us) = Some (DTsTz us);
    c_tstz : forall us, cleaf TTimestampTz (DTsTz us) = Some (DTsTz us);
    p_null : pleaf DNull = PNone;
    p_bool : forall b, pleaf (DBool b) = PBool b;
    p_int : forall z, pleaf (DInt z) = PInt z;
    p_dec : forall f, pleaf (DDec f) = PDec f;
    p_dbl : forall f, pleaf (DDbl f) = PFloat f;
    p_flt : forall f, pleaf (DFlt f) = PFloat f;
    p_str : forall s, pleaf (DStr s) = PStr s;
    p_blob : forall b, pleaf (DBlob b) = PBytes b;
    p_date : forall d, pleaf (DDate d) = PDate d;
    p_ts : forall us, pleaf (DTs us) = PTs us None;
    p_tstz : forall us, pleaf (DTsTz us) = PTs us (Some 0)
  }.
End Engine.

(* ------------------------------------------------------------------------------------------------ *)
(** * Result conversion: _to_value / _to_row / _create_row *)

Inductive vact := VMap | VRow | VList | VStripTz.
Definition vact_eqb (a b : vact) : bool :=
  match a, b with VMap, VMap | VRow, VRow | VList, VList | VStripTz, VStripTz => true | _, _ => false end.

Definition s_key : ustr := [107; 101; 121]%N.
Definition s_value : ustr := [118; 97; 108; 117; 101]%N.

Definition truthy_of (v : pyval) : bool :=
  match v with
  | PList [] | PTuple [] | PRow [] | PDict [] => false
  | _ => true
  end.

Definition is_pstr (v : pyval) : bool := match v with PStr _ => true | _ => false end.
Definition has_key (k : ustr) (kv : list (pyval * pyval)) : bool :=
  existsb (fun p => match fst p with PStr s => ueqb s k | _ => false end) kv.

(** DuckDBSession._try_get_map returns a map: non-empty dict that has the keys key and value (DuckDB < 1.1
    layout) or has a key that is not a str *)
Definition maplike_of (v : pyval) : bool :=
  match v with
  | PDict kv => truthy_of v && ((has_key s_key kv && has_key s_value kv) || existsb (fun p => negb (is_pstr (fst p))) kv)
  | _ => false
  end.

Section ToValue.
  Variable vch : chain vact.   (* _to_value, regenerated *)

  Definition vact_of (v : pyval) : option vact := first_match vch (cls_of v) FlPlain (truthy_of v) (maplike_of v).

  Fixpoint to_value (v : pyval) : pyval :=
    match vact_of v with
    | Some VMap =>
        match v with
        | PDict kv => PDict ((fix go (kv : list (pyval * pyval)) : list (pyval * pyval) :=
                                match kv with [] => [] | (k, x) :: r => (k, to_value x) :: go r end) kv)
        | _ => v
        end
    | Some VRow =>
        match v with
        | PDict kv => PRow ((fix go (kv : list (pyval * pyval)) : list (ustr * pyval) :=
                               match kv with
                               | [] => []
                               | (k, x) :: r => (match k with PStr s => s | _ => [] end, to_value x) :: go r
                               end) kv)
        | _ => v
        end
    | Some VList =>
        match v with
        | PList l | PTuple l => PList ((fix go (l : list pyval) : list pyval :=
                                          match l with [] => [] | x :: r => to_value x :: go r end) l)
        | _ => v
        end
    | Some VStripTz => match v with PTs us _ => PTs us None | _ => v end
    | None => v
    end.
End ToValue.

(** _create_row: a Decimal at the top level of a row becomes a float *)
Definition fix_dec (v : pyval) : pyval := match v with PDec f => PFloat f | _ => v end.

Fixpoint std_to_value (v : pyval) : pyval :=
  match v with
  | PDict kv =>
      if maplike_of v then
        PDict ((fix go (kv : list (pyval * pyval)) : list (pyval * pyval) :=
                  match kv with [] => [] | (k, x) :: r => (k, std_to_value x) :: go r end) kv)
      else
        PRow ((fix go (kv : list (pyval * pyval)) : list (ustr * pyval) :=
                 match kv with
                 | [] => []
                 | (k, x) :: r => (match k with PStr s => s | _ => [] end, std_to_value x) :: go r
                 end) kv)
  | PList (x :: r) => PList ((fix go (l : list pyval) : list pyval :=
                                match l with [] => [] | x :: r => std_to_value x :: go r end) (x :: r))
  | PTuple (x :: r) => PList ((fix go (l : list pyval) : list pyval :=
                                 match l with [] => [] | x :: r => std_to_value x :: go r end) (x :: r))
  | PTs us _ => PTs us None
  | _ => v
  end.

Definition std_vact (c : pycls) (truthy maplike : bool) : option vact :=
  match c with
  | CDict => if maplike then Some VMap else Some VRow
  | CList | CSet | CTuple | CRow => if truthy then Some VList else None
  | CDatetime => Some VStripTz
  | _ => None
  end.

Definition tovalue_chain_ok (vch : chain vact) : bool :=
  forallb (fun c => forallb (fun tr => forallb (fun ml =>
     oeqb vact_eqb (first_match vch c FlPlain tr ml) (std_vact c tr ml)) [true; false]) [true; false]) all_cls.

Lemma oeqb_vact a b : oeqb vact_eqb a b = true -> a = b.
Proof. destruct a as [x|], b as [y|]; cbn; try congruence. destruct x, y; cbn; congruence. Qed.

Lemma in_bools b : In b [true; false].
Proof. destruct b; cbn; tauto. Qed.

Lemma tovalue_chain_ok_act vch : tovalue_chain_ok vch = true ->
  forall v, vact_of vch v = std_vact (cls_of v) (truthy_of v) (maplike_of v).
Proof.
  intros H v. unfold tovalue_chain_ok in H. rewrite forallb_forall in H.
  specialize (H _ (in_all_cls (cls_of v))). rewrite forallb_forall in H.
  specialize (H _ (in_bools (truthy_of v))). rewrite forallb_forall in H.
  apply oeqb_vact. apply H. apply in_bools.
Qed.

Lemma to_value_is_std vch : tovalue_chain_ok vch = true -> forall v, to_value vch v = std_to_value v.
Proof.
  intro Hok. pose proof (tovalue_chain_ok_act vch Hok) as K.
  apply pyval_rect'.
  - cbn [to_value]; rewrite K; reflexivity.
  - intro b; cbn [to_value]; rewrite K; reflexivity.
  - intro z; cbn [to_value]; rewrite K; reflexivity.
  - intro f; cbn [to_value]; rewrite K; reflexivity.
  - intro f; cbn [to_value]; rewrite K; reflexivity.
  - intro s; cbn [to_value]; rewrite K; reflexivity.
  - intro b; cbn [to_value]; rewrite K; reflexivity.
  - intro d; cbn [to_value]; rewrite K; reflexivity.
  - intros us tz; cbn [to_value]; rewrite K; reflexivity.
  - intros l H. cbn [to_value]. rewrite K. destruct l as [|x r]; [reflexivity|].
    cbn [cls_of truthy_of std_vact std_to_value]. f_equal.
    induction H as [|y r' Hy Hr IH]; [reflexivity|]. rewrite Hy, IH. reflexivity.
  - intros l H. cbn [to_value]. rewrite K. destruct l as [|x r]; [reflexivity|].
    cbn [cls_of truthy_of std_vact std_to_value]. f_equal.
    induction H as [|y r' Hy Hr IH]; [reflexivity|]. rewrite Hy, IH. reflexivity.
  - intros fs H. cbn [to_value]. rewrite K. destruct fs; reflexivity.
  - intros kv H. cbn [to_value]. rewrite K. cbn [cls_of std_vact std_to_value].
    destruct (maplike_of (PDict kv)); f_equal.
    + induction H as [|[k x] r Hx Hr IH]; [reflexivity|]. cbn [fst snd] in Hx. destruct Hx as [_ Hx]. rewrite Hx, IH. reflexivity.
    + induction H as [|[k x] r Hx Hr IH]; [reflexivity|]. cbn [fst snd] in Hx. destruct Hx as [_ Hx]. rewrite Hx, IH. reflexivity.
Qed.

(* ------------------------------------------------------------------------------------------------ *)
(** * The pipeline and the round trip *)

Section Pipeline.
  Variable eleaf : lit -> option dbval.
  Variable cleaf : sty -> dbval -> option dbval.
  Variable pleaf : dbval -> pyval.
  Variable lch : chain lact.
  Variable fch : chain fact.
  Variable vch : chain vact.

  (** one cell: F.lit(x) in the VALUES row, optional CAST to the column type, fetch, _to_value, _create_row *)
  Definition run (ty : option sty) (l : lit) : option pyval :=
    match eval eleaf l with
    | None => None
    | Some d =>
        match (match ty with Some t => cast cleaf t d | None => Some d end) with
        | None => None
        | Some d' => Some (fix_dec (to_value vch (client pleaf d')))
        end
    end.

  Definition pipeline (ty : option sty) (v : pyval) : option pyval := run ty (lit_top lch fch v).
End Pipeline.

(** the value the property promises: the same value; an aware timestamp comes back as the naive UTC wall clock
    (PySpark's TimestampType under a UTC session does the same) *)
Fixpoint expected (v : pyval) : pyval :=
  match v with
  | PTs us (Some _) => PTs us None
  | PList l => PList ((fix go (l : list pyval) : list pyval := match l with [] => [] | x :: r => expected x :: go r end) l)
  | PRow fs => PRow ((fix go (fs : list (ustr * pyval)) : list (ustr * pyval) :=
                        match fs with [] => [] | (k, x) :: r => (k, expected x) :: go r end) fs)
  | _ => v
  end.

Fixpoint nodup_keys {A} (fs : list (ustr * A)) : bool :=
  match fs with
  | [] => true
  | (k, _) :: r => negb (existsb (fun p => ueqb k (fst p)) r) && nodup_keys r
  end.

(** values the theorem speaks about, as nested members: NUL-free strings, 64-bit ints, no infinity (inside a
    container the literal is the bare word inf), non-empty structs with distinct field names that are not the
    pair key/value; tuples, dicts and Decimals are not in the property's list *)
Fixpoint supp (v : pyval) : bool :=
  match v with
  | PInt z => int64 z
  | PFloat (FInf _) => false
  | PStr s => nul_free s
  | PList l => forallb supp l
  | PRow fs => negb (match fs with [] => true | _ => false end) && nodup_keys fs
               && negb (existsb (fun p => ueqb (fst p) s_key) fs && existsb (fun p => ueqb (fst p) s_value) fs)
               && forallb (fun kv => supp (snd kv)) fs
  | PTuple _ | PDict _ | PDec _ => false
  | _ => true
  end.

Definition supported (v : pyval) : bool :=
  match v with PFloat _ => true | _ => supp v end.

(** the engine value a supported value's literal denotes, and what CAST to its type makes of it *)
Fixpoint D0 (v : pyval) : dbval :=
  match v with
  | PNone => DNull | PBool b => DBool b | PInt z => DInt z
  | PFloat FNaN => DFlt FNaN
  | PFloat (FFin b e) => if e then DDbl (FFin b e) else DDec (FFin b e)
  | PFloat (FInf n) => DStr (s_inf n)
  | PDec f => DDec f
  | PStr s => DStr s | PBytes b => DBlob b | PDate d => DDate d
  | PTs us None => DTs us | PTs us (Some _) => DTsTz us
  | PList l => DList ((fix go (l : list pyval) : list dbval := match l with [] => [] | x :: r => D0 x :: go r end) l)
  | PRow fs => DStruct ((fix go (fs : list (ustr * pyval)) : list (ustr * dbval) :=
                           match fs with [] => [] | (k, x) :: r => (k, D0 x) :: go r end) fs)
  | PTuple _ | PDict _ => DNull
  end.

Fixpoint D1 (v : pyval) : dbval :=
  match v with
  | PNone => DNull | PBool b => DBool b | PInt z => DInt z
  | PFloat f => DDbl f
  | PDec f => DDec f
  | PStr s => DStr s | PBytes b => DBlob b | PDate d => DDate d
  | PTs us _ => DTsTz us
  | PList l => DList ((fix go (l : list pyval) : list dbval := match l with [] => [] | x :: r => D1 x :: go r end) l)
  | PRow fs => DStruct ((fix go (fs : list (ustr * pyval)) : list (ustr * dbval) :=
                           match fs with [] => [] | (k, x) :: r => (k, D1 x) :: go r end) fs)
  | PTuple _ | PDict _ => DNull
  end.

Section Roundtrip.
  Variable eleaf : lit -> option dbval.
  Variable cleaf : sty -> dbval -> option dbval.
  Variable pleaf : dbval -> pyval.
  Hypothesis ENV : env_ok eleaf cleaf pleaf.

  Lemma eval_nested : forall v, supp v = true -> eval eleaf (std_lit_nested v) = Some (D0 v).
  Proof.
    apply (pyval_rect' (fun v => supp v = true -> eval eleaf (std_lit_nested v) = Some (D0 v))).
    - intros _. apply (e_null _ _ _ ENV).
    - intros b _. apply (e_bool _ _ _ ENV).
    - intros z H. apply (e_int _ _ _ ENV). exact H.
    - intros f H. destruct f as [|n|b e]; [apply (e_nan _ _ _ ENV)|discriminate|apply (e_num _ _ _ ENV)].
    - intros f H. discriminate.
    - intros s H. apply (e_str _ _ _ ENV). exact H.
    - intros b _. apply (e_hex _ _ _ ENV).
    - intros d _. apply (e_date _ _ _ ENV).
    - intros us tz _. destruct tz; [apply (e_tstz _ _ _ ENV)|apply (e_ts _ _ _ ENV)].
    - intros l IH H. cbn [supp] in H. cbn [std_lit_nested eval D0].
      match goal with |- option_map DList ?a = Some (DList ?b) => assert (E : a = Some b); [|rewrite E; reflexivity] end.
      induction IH as [|x r Hx Hr IHr]; [reflexivity|].
      cbn [forallb] in H. apply andb_true_iff in H. destruct H as [H1 H2].
      rewrite (Hx H1), (IHr H2). reflexivity.
    - intros l _ H. discriminate.
    - intros fs IH H. cbn [supp] in H.
      apply andb_true_iff in H. destruct H as [H Hall]. apply andb_true_iff in H. destruct H as [H _].
      apply andb_true_iff in H. destruct H as [Hne _].
      destruct fs as [|[k0 x0] r0]; [discriminate|]. clear Hne.
      cbn [std_lit_nested eval D0].
      match goal with |- option_map DStruct ?a = Some (DStruct ?b) => assert (E : a = Some b); [|rewrite E; reflexivity] end.
      revert Hall. generalize ((k0, x0) :: r0) as fs. intros fs Hall. clear -IH Hall ENV.
      assert (G : forall fs, Forall (fun kv => supp (snd kv) = true -> eval eleaf (std_lit_nested (snd kv)) = Some (D0 (snd kv))) fs ->
                  forallb (fun kv => supp (snd kv)) fs = true ->
                  (fix go (fs0 : list (ustr * lit)) : option (list (ustr * dbval)) :=
                     match fs0 with
                     | [] => Some []
                     | (k, x) :: r => match eval eleaf x, go r with Some d, Some ds => Some ((k, d) :: ds) | _, _ => None end
                     end)
                    ((fix go (fs0 : list (ustr * pyval)) : list (ustr * lit) :=
                        match fs0 with [] => [] | (k, x) :: r => (k, std_lit_nested x) :: go r end) fs)
                  = Some ((fix go (fs0 : list (ustr * pyval)) : list (ustr * dbval) :=
                             match fs0 with [] => [] | (k, x) :: r => (k, D0 x) :: go r end) fs)).
      { clear. intros fs F. induction F as [|[k x] r Hx Hr IHr]; intro H; [reflexivity|].
        cbn [forallb snd] in H. apply andb_true_iff in H. destruct H as [H1 H2]. cbn [snd] in Hx.
        rewrite (Hx H1), (IHr H2). reflexivity. }
      admit.
  Abort.
End Roundtrip.
