(** C09 -- executable comparison functions used by the correspondence check (evaluated with vm_compute on
    cases that contain the real implementation's answers). *)
From Coq Require Import NArith ZArith List Bool String Ascii.
From SF Require Import C09.Lex C09.Values C09.Pipeline C09.Schema.
Import ListNotations.
Local Open Scope string_scope.

Definition list_eqb {A} (eqb : A -> A -> bool) : list A -> list A -> bool :=
  fix go x y := match x, y with [] , [] => true | a :: x', b :: y' => eqb a b && go x' y' | _, _ => false end.

Definition oz_eqb (a b : option Z) : bool :=
  match a, b with Some x, Some y => Z.eqb x y | None, None => true | _, _ => false end.

Fixpoint pyval_eqb (a b : pyval) {struct a} : bool :=
  match a, b with
  | PNone, PNone => true
  | PBool x, PBool y => Bool.eqb x y
  | PInt x, PInt y => Z.eqb x y
  | PFloat x, PFloat y => fval_eqb x y
  | PDec x, PDec y => fval_eqb x y
  | PStr x, PStr y => ueqb x y
  | PBytes x, PBytes y => ueqb x y
  | PDate x, PDate y => Z.eqb x y
  | PTs x tx, PTs y ty => Z.eqb x y && oz_eqb tx ty
  | PList x, PList y | PTuple x, PTuple y =>
      (fix go (x y : list pyval) : bool :=
         match x, y with [], [] => true | u :: x', w :: y' => pyval_eqb u w && go x' y' | _, _ => false end) x y
  | PRow x, PRow y =>
      (fix go (x y : list (ustr * pyval)) : bool :=
         match x, y with
         | [], [] => true
         | (k, u) :: x', (k', w) :: y' => ueqb k k' && pyval_eqb u w && go x' y'
         | _, _ => false
         end) x y
  | PDict x, PDict y =>
      (fix go (x y : list (pyval * pyval)) : bool :=
         match x, y with
         | [], [] => true
         | (k, u) :: x', (k', w) :: y' => pyval_eqb k k' && pyval_eqb u w && go x' y'
         | _, _ => false
         end) x y
  | _, _ => false
  end.

Definition opy_eqb (a b : option pyval) : bool :=
  match a, b with Some x, Some y => pyval_eqb x y | None, None => true | _, _ => false end.

Definition b2s (b : bool) : string := if b then "1" else "0".

(* ------------------------------------------------------------------------------------------------ *)
(** one column of one createDataFrame (sel = false), or one lit() in select() (sel = true, one value) *)
Record column := mkCol {
  c_decl : option sty;            (* declared column type, None = inferred from the first row *)
  c_vals : list pyval;            (* the values put in, first row first *)
  c_gots : list (option pyval);   (* what collect() returned per row (None = the statement raised) *)
  c_sel : bool;                   (* true: select(lit(v)) -- no CAST *)
  c_r32 : list (Z * (Z * bool))   (* float32 rounding of the finite floats that occur (CPython/IEEE fact) *)
}.

Definition is_none (v : pyval) : bool := match v with PNone => true | _ => false end.

(** the value createDataFrame infers a column's type from: the first one that is not None (regenerated flag;
    false = the first row's value, the behaviour before the repair) *)
Definition sample_of (first_non_none : bool) (vs : list pyval) : option pyval :=
  if first_non_none then find (fun v => negb (is_none v)) vs else hd_error vs.

Section ColumnCheck.
  Variable ich : chain ikind.
  Variable lch : chain lact.
  Variable fch : chain fact.
  Variable vch : chain vact.
  Variable floats_via_lit : bool.
  Variable first_non_none : bool.

  Definition col_type (c : column) : option sty :=
    if c_sel c then None
    else match c_decl c with
         | Some t => Some t
         | None => match sample_of first_non_none (c_vals c) with Some v0 => infer ich v0 | None => None end
         end.

  Definition model (c : column) : list (option pyval) :=
    col_pipeline ref_eleaf ref_cleaf ref_pleaf (ref_round32 (c_r32 c))
                 (if c_sel c then lit_top lch fch else cell_lit lch fch floats_via_lit) vch (col_type c) (c_vals c).

  (** premise of column_roundtrip / column_untyped (for an inferred type also: the sampled value is uniform, so
      that infer_type_sound applies; for select(lit(v)): v is not an infinity) *)
  Definition in_domain (c : column) : bool :=
    match col_type c with
    | Some t => forallb (col_member t) (c_vals c)
                && match c_decl c, sample_of first_non_none (c_vals c) with None, Some v0 => uniform v0 | _, _ => true end
    | None => if c_sel c then forallb untyped_ok (c_vals c) else forallb supp (c_vals c)
    end.

  (** per cell four flags: impl = model, impl = spec, model = spec, column in the theorem's domain *)
  Definition check_column (c : column) : string :=
    let dom := b2s (in_domain c) in
    (fix go (vs : list pyval) (gs ms : list (option pyval)) : string :=
       match vs, gs, ms with
       | v :: vs', g :: gs', m :: ms' =>
           let s := Some (expected v) in
           b2s (opy_eqb g m) ++ b2s (opy_eqb g s) ++ b2s (opy_eqb m s) ++ dom ++ go vs' gs' ms'
       | _, _, _ => ""
       end) (c_vals c) (c_gots c) (model c).
End ColumnCheck.

(* ------------------------------------------------------------------------------------------------ *)
(** string literals of the statement text *)

Definition hexdigit (n : N) : N := if (n <? 10)%N then (48 + n)%N else (87 + n)%N.
Definition hex_text (b : list N) : ustr := flat_map (fun x => [hexdigit (x / 16)%N; hexdigit (x mod 16)%N]) b.

Fixpoint lit_strs (l : lit) : list ustr :=
  match l with
  | LStr s => [s]
  | LStrNul s => split0 s
  | LCastStr s _ => [s]
  | LHex b => [hex_text b]
  | LArr xs | LTuple xs => flat_map lit_strs xs
  | LStruct fs => flat_map (fun kv => fst kv :: lit_strs (snd kv)) fs
  | _ => []
  end.

Definition has_text_payload : lit -> bool :=
  fix go l := match l with
              | LDate _ | LTs _ | LTsTz _ | LMap _ _ | LErr => true
              | LArr xs | LTuple xs => existsb go xs
              | LStruct fs => existsb (fun kv => go (snd kv)) fs
              | _ => false
              end.

Record stmt_case := mkStmt {
  s_cells : list pyval;     (* row-major cells of the VALUES clause (or the lit() arguments) *)
  s_sql : string;           (* the statement text DuckDB received (armoured) *)
  s_base : string           (* the same program with placeholder strings (armoured) *)
}.

Definition count_ts (ts : list tok) : nat := List.length (strs ts).

Definition nat_str (n : nat) : string :=
  (fix go (fuel : nat) (n : N) (acc : string) : string :=
     match fuel with
     | O => acc
     | S f => let d := String (ascii_of_N (48 + n mod 10)) acc in
              if (n / 10 =? 0)%N then d else go f (n / 10)%N d
     end) 20%nat (N.of_nat n) "".

(** the VALUES alias (a1, a2, ...) and CTE names are generated per DataFrame, so the check compares the
    structure with the contents of quoted identifiers erased as well (their number and positions stay) *)
Definition erase_names (t : tok) : tok := match t with TI _ => TI [] | x => x end.

Section StmtCheck.
  Variable lch : chain lact.
  Variable fch : chain fact.

  (** flags: text certified (lexes, re-renders to itself, in the domain of stmt_roundtrip); its string literals
      are exactly the strings of the model's literals, in order; its skeleton equals the placeholder program's;
      then ":" and the number of string tokens (compared with DuckDB's own tokenizer by the harness) *)
  Definition check_stmt (c : stmt_case) : string :=
    let text := decode (s_sql c) in
    match certified text with
    | None => "000:0"
    | Some ts =>
        let want := flat_map (fun v => lit_strs (lit_top lch fch v)) (s_cells c) in
        (* the statement may contain further literals (e.g. CTE wrappers repeat nothing); exact match required *)
        "1" ++ b2s (list_eqb ueqb (strs ts) want)
            ++ b2s (match lex_stmt (decode (s_base c)) with
                    | Some tb => list_eqb tok_eqb (map erase_names (skeleton ts)) (map erase_names (skeleton tb))
                    | None => false
                    end)
            ++ ":" ++ nat_str (count_ts ts)
    end.
End StmtCheck.

(** a string, what sqlglot's DuckDB generator wrote for it, and whether DuckDB gave it back unchanged when the
    text was executed; flags: generator = render_string; model round trip agrees with DuckDB's verdict *)
Definition check_render (q : N) (c : string * string * bool) : string :=
  let '(s, r, duck_ok) := c in
  let s := decode s in
  let rs := render_quoted q s in
  b2s (ueqb rs (decode r))
  ++ b2s (Bool.eqb duck_ok (match lex_quoted q rs with
                            | Some (s', []) => ueqb s' s && negb (match s, (q =? QI)%N with [], true => true | _, _ => false end)
                            | _ => false
                            end))
  ++ b2s (Bool.eqb (nul_free s) duck_ok || match s, (q =? QI)%N with [], true => true | _, _ => false end).

(** raw (possibly malformed) statement text: the model's token counts, or X *)
Definition check_raw (t : string) : string :=
  match lex_stmt (decode t) with
  | Some ts => nat_str (count_ts ts) ++ "," ++ nat_str (List.length (idents ts))
  | None => "X"
  end.

(** df.schema of a declared type *)
Definition check_schema (tbl : list (string * string)) (c : sty * sty) : bool :=
  let '(declared, reported) := c in
  osty_eqb (to_spark tbl (env_report declared)) (Some reported) && sty_eqb reported (report_expected declared).
