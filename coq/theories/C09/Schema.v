(** C09 -- df.schema: the declared Spark type travels  spark type string -> sqlglot DataType -> DuckDB column
    type -> catalog listing (re-written as a Spark type string) -> sqlglot DataType -> sqlglot_to_spark.
    Everything up to the last arrow is environment ([env_report], my definition, validated by T3); the last
    arrow is sqlframe's table [primitive_mapping], regenerated from source. *)
From Coq Require Import NArith ZArith List Bool String.
From SF Require Import C09.Lex C09.Values C09.Pipeline.
Import ListNotations.
Local Open Scope string_scope.

(** sqlglot DataType as far as sqlglot_to_spark looks at it: the Type enum member's name and the nested types *)
Inductive gty := GPrim (name : string) | GArray (g : gty) | GStruct (fs : list (ustr * gty)) | GMap (k v : gty).

Definition prim_name (t : sty) : string :=
  match t with
  | TBool => "BOOLEAN" | TByte => "TINYINT" | TShort => "SMALLINT" | TInt => "INT" | TBigint => "BIGINT"
  | TFloat => "FLOAT" | TDouble => "DOUBLE" | TString => "TEXT" | TBinary => "BINARY" | TDate => "DATE"
  | TTimestamp | TTimestampTz => "TIMESTAMPTZ"
  | _ => ""
  end.

Fixpoint env_report (t : sty) : gty :=
  match t with
  | TArray t' => GArray (env_report t')
  | TStruct fs => GStruct (map_snd env_report fs)
  | TMap k v => GMap (env_report k) (env_report v)
  | _ => GPrim (prim_name t)
  end.

(** names of sqlframe.base.types classes *)
Definition cls_to_sty (c : string) : option sty :=
  if String.eqb c "BooleanType" then Some TBool
  else if String.eqb c "ByteType" then Some TByte
  else if String.eqb c "ShortType" then Some TShort
  else if String.eqb c "IntegerType" then Some TInt
  else if String.eqb c "LongType" then Some TBigint
  else if String.eqb c "FloatType" then Some TFloat
  else if String.eqb c "DoubleType" then Some TDouble
  else if String.eqb c "StringType" then Some TString
  else if String.eqb c "BinaryType" then Some TBinary
  else if String.eqb c "DateType" then Some TDate
  else if String.eqb c "TimestampType" then Some TTimestamp
  else None.

Fixpoint assoc (k : string) (tbl : list (string * string)) : option string :=
  match tbl with [] => None | (k', v) :: r => if String.eqb k k' then Some v else assoc k r end.

Section ToSpark.
  Variable tbl : list (string * string).   (* primitive_mapping: Type member -> class, regenerated *)

  Fixpoint to_spark (g : gty) : option sty :=
    match g with
    | GPrim n => match assoc n tbl with Some c => cls_to_sty c | None => None end
    | GArray g' => option_map TArray (to_spark g')
    | GStruct fs => option_map TStruct (mapo_snd to_spark fs)
    | GMap k v => match to_spark k, to_spark v with Some a, Some b => Some (TMap a b) | _, _ => None end
    end.
End ToSpark.

(** what df.schema must say for a declared type: the type itself; Spark has one timestamp type *)
Fixpoint report_expected (t : sty) : sty :=
  match t with
  | TTimestampTz => TTimestamp
  | TArray t' => TArray (report_expected t')
  | TStruct fs => TStruct (map_snd report_expected fs)
  | TMap k v => TMap (report_expected k) (report_expected v)
  | _ => t
  end.

Definition prims : list sty :=
  [TBool; TByte; TShort; TInt; TBigint; TFloat; TDouble; TString; TBinary; TDate; TTimestamp; TTimestampTz].

Definition mapping_ok (tbl : list (string * string)) : bool :=
  forallb (fun t => osty_eqb (to_spark tbl (env_report t)) (Some (report_expected t))) prims.

Theorem schema_reports_declared : forall tbl, mapping_ok tbl = true ->
  forall t, to_spark tbl (env_report t) = Some (report_expected t).
Proof.
  intros tbl Hok. unfold mapping_ok in Hok. rewrite forallb_forall in Hok.
  apply sty_rect'.
  - intro t. destruct t; try exact I; apply osty_eqb_eq; apply Hok; cbn; tauto.
  - intros t IH. cbn [env_report to_spark report_expected]. rewrite IH. reflexivity.
  - intros fs IH. cbn [env_report to_spark report_expected].
    assert (E : mapo_snd (to_spark tbl) (map_snd env_report fs) = Some (map_snd report_expected fs)).
    { induction IH as [|[k x] r Hx _ IHr]; [reflexivity|]. cbn [snd] in Hx.
      cbn [map_snd mapo_snd]. fold (@map_snd ustr _ _ env_report). fold (@map_snd ustr _ _ report_expected).
      fold (@mapo_snd ustr _ _ (to_spark tbl)). rewrite Hx, IHr. reflexivity. }
    rewrite E. reflexivity.
  - intros k v Hk Hv. cbn [env_report to_spark report_expected]. rewrite Hk, Hv. reflexivity.
Qed.
