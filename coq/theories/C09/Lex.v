(** C09 -- SQL string literals and quoted identifiers as sqlglot's DuckDB generator writes them and as
    DuckDB's lexer reads them.

    Strings are [list N] of Unicode code points (not Coq [string] = bytes).  Justification: sqlglot escapes
    Python [str] values, whose elements are code points; DuckDB lexes UTF-8 bytes, but the only bytes that are
    significant inside a quoted token (the quote 0x27 / 0x22 and NUL 0x00) are ASCII, and in UTF-8 an ASCII byte
    never occurs inside a multi-byte sequence, so lexing code points and lexing their UTF-8 bytes agree.  The
    property quantifies over arbitrary Unicode strings, which [list N] states directly (astral and combining
    characters are just numbers).

    [render_quoted] / [scan] / [lex] are MY DEFINITIONS of environment behaviour (sqlglot 26.14 generator,
    DuckDB 1.2.2 lexer); they are validated by the correspondence check (T3) exhaustively over an adversarial
    alphabet, never assumed as axioms. *)
From Coq Require Import NArith List Bool Lia String Ascii.
Import ListNotations.
Open Scope N_scope.

Definition ustr := list N.

Definition ueqb (a b : ustr) : bool := if list_eq_dec N.eq_dec a b then true else false.
Lemma ueqb_eq a b : ueqb a b = true <-> a = b.
Proof. unfold ueqb; destruct (list_eq_dec N.eq_dec a b); split; congruence. Qed.
Lemma ueqb_refl a : ueqb a a = true.
Proof. apply ueqb_eq; reflexivity. Qed.

(** ASCII-armoured transport of code-point strings from the harness: printable ASCII except the double quote and [~] stands
    for itself, anything else is [~] followed by 6 hex digits.  (Only used to get case data into Coq quickly.) *)
Definition hexval (a : ascii) : N :=
  let n := N_of_ascii a in
  if (48 <=? n) && (n <=? 57) then n - 48
  else if (97 <=? n) && (n <=? 102) then n - 87
  else if (65 <=? n) && (n <=? 70) then n - 55 else 0.

Fixpoint decode (s : string) : ustr :=
  match s with
  | EmptyString => []
  | String a t =>
      if Ascii.eqb a "~"%char then
        match t with
        | String h1 (String h2 (String h3 (String h4 (String h5 (String h6 t'))))) =>
            (((((hexval h1 * 16 + hexval h2) * 16 + hexval h3) * 16 + hexval h4) * 16 + hexval h5) * 16 + hexval h6)
            :: decode t'
        | _ => []
        end
      else N_of_ascii a :: decode t
  end.

(* ------------------------------------------------------------------------------------------------ *)
(** * Quoted tokens *)

Definition QS : N := 39.   (* ' *)
Definition QI : N := 34.   (* double quote *)

Fixpoint nul_free (s : ustr) : bool :=
  match s with [] => true | c :: t => negb (c =? 0) && nul_free t end.

(** sqlglot (DuckDB dialect): the only escape inside '...' is doubling the quote; identifiers likewise with the double quote. *)
Fixpoint esc (q : N) (s : ustr) : ustr :=
  match s with
  | [] => []
  | c :: t => if c =? q then q :: q :: esc q t else c :: esc q t
  end.

Definition render_quoted (q : N) (s : ustr) : ustr := q :: esc q s ++ [q].
Definition render_string := render_quoted QS.
Definition render_ident := render_quoted QI.

Definition cons_fst (c : N) (r : option (ustr * ustr)) : option (ustr * ustr) :=
  match r with Some (s, rest) => Some (c :: s, rest) | None => None end.

(** DuckDB's lexer after the opening quote [q]: a doubled quote is one quote character, a single quote ends the
    token, NUL ends the statement text (=> "unterminated quoted string"), nothing else is special (backslash,
    newline, comment markers are ordinary characters: standard_conforming_strings). *)
Fixpoint scan (q : N) (l : ustr) : option (ustr * ustr) :=
  match l with
  | [] => None
  | c :: t =>
      if c =? 0 then None
      else if c =? q then
        match t with
        | c2 :: t2 => if c2 =? q then cons_fst q (scan q t2) else Some ([], t)
        | [] => Some ([], [])
        end
      else cons_fst c (scan q t)
  end.

Definition lex_quoted (q : N) (l : ustr) : option (ustr * ustr) :=
  match l with
  | c :: t => if c =? q then scan q t else None
  | [] => None
  end.
Definition lex_string := lex_quoted QS.
(** DuckDB rejects the zero-length delimited identifier [""] *)
Definition lex_ident (l : ustr) : option (ustr * ustr) :=
  match lex_quoted QI l with
  | Some ([], _) => None
  | r => r
  end.

Definition starts_with (q : N) (l : ustr) : bool :=
  match l with c :: _ => c =? q | [] => false end.

Lemma scan_esc : forall q s rest,
  q <> 0 -> nul_free s = true -> starts_with q rest = false ->
  scan q (esc q s ++ q :: rest) = Some (s, rest).
Proof.
  intros q s rest Hq; induction s as [|c t IH]; intros Hn Hr.
  - cbn [esc app scan]. destruct (q =? 0) eqn:E0; [apply N.eqb_eq in E0; congruence|].
    rewrite N.eqb_refl. destruct rest as [|c2 t2]; [reflexivity|].
    cbn [starts_with] in Hr. rewrite Hr. reflexivity.
  - cbn [nul_free] in Hn. apply andb_true_iff in Hn. destruct Hn as [Hc Ht].
    apply negb_true_iff in Hc.
    cbn [esc]. destruct (c =? q) eqn:Ecq.
    + apply N.eqb_eq in Ecq; subst c.
      cbn [app scan]. rewrite Hc. repeat rewrite N.eqb_refl. cbn [app].
      rewrite (IH Ht Hr). reflexivity.
    + cbn [app scan]. rewrite Hc, Ecq. rewrite (IH Ht Hr). reflexivity.
Qed.

(** The round trip for all strings: whatever the content, the lexer consumes exactly the rendered literal and
    returns exactly the content -- no content can end the literal early or swallow what follows. *)
Theorem quoted_roundtrip : forall q s rest,
  q <> 0 -> nul_free s = true -> starts_with q rest = false ->
  lex_quoted q (render_quoted q s ++ rest) = Some (s, rest).
Proof.
  intros q s rest Hq Hn Hr. unfold lex_quoted, render_quoted.
  cbn [app]. rewrite N.eqb_refl. rewrite <- app_assoc. cbn [app]. apply scan_esc; assumption.
Qed.

Theorem string_roundtrip : forall s rest,
  nul_free s = true -> starts_with QS rest = false ->
  lex_string (render_string s ++ rest) = Some (s, rest).
Proof. intros; apply quoted_roundtrip; [discriminate|assumption|assumption]. Qed.

Theorem ident_roundtrip : forall s rest,
  s <> [] -> nul_free s = true -> starts_with QI rest = false ->
  lex_ident (render_ident s ++ rest) = Some (s, rest).
Proof.
  intros s rest Hs Hn Hr. unfold lex_ident, render_ident.
  rewrite quoted_roundtrip by (try discriminate; assumption).
  destruct s; [congruence|reflexivity].
Qed.

(** NUL is the one character for which the round trip fails (the full property, "arbitrary Unicode strings",
    is false of the faithful model). *)
Lemma scan_nul : forall q a rest, q <> 0 -> scan q (esc q a ++ 0 :: rest) = None.
Proof.
  intros q a rest Hq. induction a as [|c t IH].
  - reflexivity.
  - cbn [esc]. destruct (c =? q) eqn:E.
    + apply N.eqb_eq in E; subst c. cbn [app scan].
      destruct (q =? 0) eqn:E0; [reflexivity|]. repeat rewrite N.eqb_refl. rewrite IH. reflexivity.
    + cbn [app scan]. destruct (c =? 0); [reflexivity|]. rewrite E, IH. reflexivity.
Qed.

Lemma nul_breaks_literal : forall a b rest, lex_string (render_string (a ++ 0 :: b) ++ rest) = None.
Proof.
  intros a b rest. unfold lex_string, lex_quoted, render_string, render_quoted.
  cbn [app]. rewrite N.eqb_refl. rewrite <- app_assoc.
  assert (E : esc QS (a ++ 0 :: b) = esc QS a ++ 0 :: esc QS b).
  { induction a as [|c t IH]; [reflexivity|]. cbn [app esc]. rewrite IH. destruct (c =? QS); reflexivity. }
  rewrite E, <- app_assoc. cbn [app]. apply scan_nul. discriminate.
Qed.

(* ------------------------------------------------------------------------------------------------ *)
(** * Whole statements: a template with string / identifier holes *)

Inductive tok := TC (c : N) | TS (s : ustr) | TI (s : ustr).

Definition tok_eqb (a b : tok) : bool :=
  match a, b with
  | TC x, TC y => x =? y
  | TS x, TS y => ueqb x y
  | TI x, TI y => ueqb x y
  | _, _ => false
  end.

(** letters that turn a following ' into another kind of literal (E'..' escape strings, X'..', B'..', N'..',
    U&'..'): e E x X b B n N & *)
Definition prefix_char (c : N) : bool :=
  (c =? 101) || (c =? 69) || (c =? 120) || (c =? 88) || (c =? 98) || (c =? 66) || (c =? 110) || (c =? 78) || (c =? 38).

(** a character the model reads as an ordinary one-character token when followed by [nx] *)
Definition plain_char (c : N) (nx : option N) : bool :=
  negb (c =? 0) && negb (c =? QS) && negb (c =? QI) && negb (c =? 36) (* $ *)
  && negb (c =? 10) && negb (c =? 13)
  && match nx with
     | Some n => negb ((c =? 45) && (n =? 45))            (* -- *)
                 && negb ((c =? 47) && (n =? 42))          (* /* *)
                 && negb (prefix_char c && (n =? QS))
     | None => true
     end.

Definition ocons (t : tok) (r : option (list tok)) : option (list tok) :=
  match r with Some l => Some (t :: l) | None => None end.

(** The statement lexer is a CERTIFIER: [Some toks] means that, by DuckDB's lexical rules, the text is exactly
    that sequence (every character outside quotes is kept as a [TC] token, so nothing is hidden); [None] means a
    lexical error or a construct the model does not cover (comments, dollar quoting, prefixed literals, line
    breaks between tokens -- none of which sqlframe's non-pretty DuckDB output contains outside quotes). *)
Fixpoint lex (fuel : nat) (l : ustr) : option (list tok) :=
  match fuel with
  | O => None
  | S f =>
      match l with
      | [] => Some []
      | c :: t =>
          if c =? QS then
            match scan QS t with Some (s, r) => ocons (TS s) (lex f r) | None => None end
          else if c =? QI then
            match scan QI t with
            | Some ([], _) => None
            | Some (s, r) => ocons (TI s) (lex f r)
            | None => None
            end
          else if plain_char c (hd_error t) then ocons (TC c) (lex f t)
          else None
      end
  end.

Definition lex_stmt (l : ustr) : option (list tok) := lex (S (List.length l)) l.

Inductive piece := Raw (l : ustr) | Str (s : ustr) | Idn (s : ustr).

Definition render_piece (p : piece) : ustr :=
  match p with Raw l => l | Str s => render_string s | Idn s => render_ident s end.
Definition render (ps : list piece) : ustr := flat_map render_piece ps.
Definition toks_piece (p : piece) : list tok :=
  match p with Raw l => map TC l | Str s => [TS s] | Idn s => [TI s] end.
Definition toks (ps : list piece) : list tok := flat_map toks_piece ps.

Fixpoint raw_ok (l : ustr) (nx : option N) : bool :=
  match l with
  | [] => true
  | c :: t => plain_char c (match t with c2 :: _ => Some c2 | [] => nx end) && raw_ok t nx
  end.

Definition first_char (ps : list piece) : option N := hd_error (render ps).

(** well-formed templates: raw text is made of plain characters (also with respect to what follows it), holes
    hold NUL-free strings, identifiers are non-empty, and two holes of the same kind are never adjacent *)
Fixpoint wf (ps : list piece) : bool :=
  match ps with
  | [] => true
  | Raw l :: rest => negb (match l with [] => true | _ => false end) && raw_ok l (first_char rest) && wf rest
  | Str s :: rest => nul_free s && negb (match first_char rest with Some c => c =? QS | None => false end) && wf rest
  | Idn s :: rest => nul_free s && negb (match s with [] => true | _ => false end)
                     && negb (match first_char rest with Some c => c =? QI | None => false end) && wf rest
  end.

Lemma lex_more : forall f l r, lex f l = Some r -> forall g, (f <= g)%nat -> lex g l = Some r.
Proof.
  induction f as [|f IH]; intros l r H g Hg; [discriminate|].
  destruct g as [|g]; [lia|]. assert (Hfg : (f <= g)%nat) by lia.
  cbn [lex] in *. destruct l as [|c t]; [assumption|].
  destruct (c =? QS).
  - destruct (scan QS t) as [[s r']|]; [|discriminate].
    destruct (lex f r') as [l'|] eqn:E; [|discriminate]. rewrite (IH _ _ E g Hfg). assumption.
  - destruct (c =? QI).
    + destruct (scan QI t) as [[s r']|]; [|discriminate]. destruct s as [|s0 s']; [discriminate|].
      destruct (lex f r') as [l'|] eqn:E; [|discriminate]. rewrite (IH _ _ E g Hfg). assumption.
    + destruct (plain_char c (hd_error t)); [|discriminate].
      destruct (lex f t) as [l'|] eqn:E; [|discriminate]. rewrite (IH _ _ E g Hfg). assumption.
Qed.

Lemma plain_not_quote c nx : plain_char c nx = true -> (c =? QS) = false /\ (c =? QI) = false.
Proof.
  unfold plain_char; intro H. repeat (apply andb_true_iff in H; destruct H as [H ?]).
  split; apply negb_true_iff; assumption.
Qed.

Lemma hd_error_app_raw (t rest : ustr) :
  hd_error (t ++ rest) = match t with c2 :: _ => Some c2 | [] => hd_error rest end.
Proof. destruct t; reflexivity. Qed.

Lemma lex_raw : forall l rest f r,
  raw_ok l (hd_error rest) = true -> lex f rest = Some r ->
  lex (List.length l + f) (l ++ rest) = Some (map TC l ++ r).
Proof.
  induction l as [|c t IH]; intros rest f r Hok Hr.
  - exact Hr.
  - cbn [raw_ok] in Hok. apply andb_true_iff in Hok. destruct Hok as [Hc Ht].
    cbn [List.length Nat.add app lex map].
    rewrite hd_error_app_raw.
    destruct (plain_not_quote _ _ Hc) as [E1 E2]. rewrite E1, E2, Hc.
    rewrite (IH rest f r Ht Hr). reflexivity.
Qed.

Lemma first_char_false q rest :
  negb (match hd_error rest with Some c => c =? q | None => false end) = true -> starts_with q rest = false.
Proof. destruct rest as [|c t]; cbn; [reflexivity|]. intro H. apply negb_true_iff in H. exact H. Qed.

Lemma render_quoted_length q s : (2 <= List.length (render_quoted q s))%nat.
Proof. unfold render_quoted. cbn [List.length]. rewrite app_length. cbn [List.length]. lia. Qed.

Lemma stmt_roundtrip_fuel : forall ps, wf ps = true ->
  exists f, (f <= S (List.length (render ps)))%nat /\ lex f (render ps) = Some (toks ps).
Proof.
  induction ps as [|p rest IH]; intro H.
  - exists 1%nat. split; [cbn; lia|reflexivity].
  - destruct p as [l|s|s]; cbn [wf] in H.
    + apply andb_true_iff in H. destruct H as [H Hw]. apply andb_true_iff in H. destruct H as [_ Hraw].
      destruct (IH Hw) as [f [Hb Hf]]. exists (List.length l + f)%nat.
      change (render (Raw l :: rest)) with (l ++ render rest).
      change (toks (Raw l :: rest)) with (map TC l ++ toks rest).
      split; [rewrite app_length; lia|]. apply lex_raw; assumption.
    + apply andb_true_iff in H. destruct H as [H Hw]. apply andb_true_iff in H. destruct H as [Hn Hq].
      destruct (IH Hw) as [f [Hb Hf]]. exists (S f).
      change (render (Str s :: rest)) with (render_string s ++ render rest).
      change (toks (Str s :: rest)) with (TS s :: toks rest).
      split; [rewrite app_length; pose proof (render_quoted_length QS s); unfold render_string; lia|].
      unfold render_string, render_quoted. cbn [app lex]. unfold QS at 1 2. rewrite N.eqb_refl.
      rewrite <- app_assoc. cbn [app]. fold QS.
      rewrite scan_esc; [rewrite Hf; reflexivity|discriminate|assumption|].
      apply first_char_false. exact Hq.
    + apply andb_true_iff in H. destruct H as [H Hw]. apply andb_true_iff in H. destruct H as [H Hq].
      apply andb_true_iff in H. destruct H as [Hn Hne].
      destruct (IH Hw) as [f [Hb Hf]]. exists (S f).
      change (render (Idn s :: rest)) with (render_ident s ++ render rest).
      change (toks (Idn s :: rest)) with (TI s :: toks rest).
      split; [rewrite app_length; pose proof (render_quoted_length QI s); unfold render_ident; lia|].
      unfold render_ident, render_quoted. cbn [app lex]. change (QI =? QS) with false. cbn iota.
      unfold QI at 1 2. rewrite N.eqb_refl.
      rewrite <- app_assoc. cbn [app]. fold QI.
      rewrite scan_esc; [|discriminate|assumption|apply first_char_false; exact Hq].
      destruct s as [|s0 s']; [discriminate|]. rewrite Hf. reflexivity.
Qed.

(** Every well-formed template lexes back to exactly its own token sequence, whatever the holes contain. *)
Theorem stmt_roundtrip : forall ps, wf ps = true -> lex_stmt (render ps) = Some (toks ps).
Proof.
  intros ps H. destruct (stmt_roundtrip_fuel ps H) as [f [Hb Hf]].
  unfold lex_stmt. exact (lex_more _ _ _ Hf _ Hb).
Qed.

(** structure = the token sequence with the CONTENT of string literals erased *)
Definition erase (t : tok) : tok := match t with TS _ => TS [] | x => x end.
Definition skeleton (l : list tok) : list tok := map erase l.
Definition oskeleton (r : option (list tok)) : option (list tok) := option_map skeleton r.

Fixpoint same_shape (a b : list piece) : bool :=
  match a, b with
  | [], [] => true
  | Raw x :: a', Raw y :: b' => ueqb x y && same_shape a' b'
  | Str _ :: a', Str _ :: b' => same_shape a' b'
  | Idn x :: a', Idn y :: b' => ueqb x y && same_shape a' b'
  | _, _ => false
  end.

Lemma same_shape_skeleton : forall a b, same_shape a b = true -> skeleton (toks a) = skeleton (toks b).
Proof.
  induction a as [|p a IH]; destruct b as [|q b]; cbn [same_shape]; intro H.
  - reflexivity.
  - discriminate.
  - destruct p; discriminate.
  - unfold skeleton, toks in *. cbn [flat_map]. rewrite !map_app.
    destruct p, q; try discriminate.
    + apply andb_true_iff in H. destruct H as [E H]. apply ueqb_eq in E. subst. rewrite (IH _ H). reflexivity.
    + rewrite (IH _ H). reflexivity.
    + apply andb_true_iff in H. destruct H as [E H]. apply ueqb_eq in E. subst. rewrite (IH _ H). reflexivity.
Qed.



(** No string content can change the structure of the statement: two fillings of the same template (any NUL-free
    contents in the string holes) lex to token sequences that differ only in the contents of the string tokens. *)
Theorem structure_independent : forall a b,
  wf a = true -> wf b = true -> same_shape a b = true ->
  exists ta tb, lex_stmt (render a) = Some ta /\ lex_stmt (render b) = Some tb /\ skeleton ta = skeleton tb.
Proof.
  intros a b Ha Hb Hs. exists (toks a), (toks b).
  repeat split; try (apply stmt_roundtrip; assumption). apply same_shape_skeleton; assumption.
Qed.



(* ------------------------------------------------------------------------------------------------ *)
(** * Executable helpers for the correspondence check *)

(** merge the tokens back into a template *)
Fixpoint pieces_of (ts : list tok) : list piece :=
  match ts with
  | [] => []
  | TC c :: r => match pieces_of r with Raw l :: ps => Raw (c :: l) :: ps | ps => Raw [c] :: ps end
  | TS s :: r => Str s :: pieces_of r
  | TI s :: r => Idn s :: pieces_of r
  end.

Definition strs (ts : list tok) : list ustr := flat_map (fun t => match t with TS s => [s] | _ => [] end) ts.
Definition idents (ts : list tok) : list ustr := flat_map (fun t => match t with TI s => [s] | _ => [] end) ts.

(** the actual statement text is certified when it lexes, when re-rendering the lexed template gives back the
    very same text (so every literal in it is written exactly as [render_string] writes it) and the template is
    in the domain of [stmt_roundtrip] *)
Definition certified (text : ustr) : option (list tok) :=
  match lex_stmt text with
  | Some ts => let ps := pieces_of ts in
               if wf ps && ueqb (render ps) text then Some ts else None
  | None => None
  end.
