(** C09 -- Python values, their classes, the isinstance dispatch tables regenerated from source, first-row type
    inference ([get_default_data_type]) and its soundness. *)
From Coq Require Import NArith ZArith List Bool Lia.
From SF Require Import C09.Lex.
Import ListNotations.
Open Scope Z_scope.

(** floats: only their identity matters (text <-> binary conversion is environment).  [FFin bits expform]:
    [bits] = the IEEE-754 binary64 pattern, [expform] = CPython's repr of it uses exponent notation. *)
Inductive fval := FNaN | FInf (neg : bool) | FFin (bits : Z) (expform : bool).

Definition fval_eqb (a b : fval) : bool :=
  match a, b with
  | FNaN, FNaN => true
  | FInf x, FInf y => Bool.eqb x y
  | FFin x e, FFin y e' => Z.eqb x y && Bool.eqb e e'
  | _, _ => false
  end.

Inductive pyval :=
| PNone
| PBool (b : bool)
| PInt (z : Z)
| PFloat (f : fval)
| PDec (f : fval)                       (* decimal.Decimal denoting the decimal numeral of f *)
| PStr (s : ustr)
| PBytes (b : list N)
| PDate (d : Z)                         (* proleptic ordinal *)
| PTs (us : Z) (tz : option Z)          (* naive wall clock | aware: UTC instant + offset minutes *)
| PList (l : list pyval)
| PTuple (l : list pyval)
| PRow (fs : list (ustr * pyval))
| PDict (kv : list (pyval * pyval)).

(** induction principle that reaches into the nested lists *)
Section PyInd.
  Variable P : pyval -> Prop.
  Hypothesis HNone : P PNone.
  Hypothesis HBool : forall b, P (PBool b).
  Hypothesis HInt : forall z, P (PInt z).
  Hypothesis HFloat : forall f, P (PFloat f).
  Hypothesis HDec : forall f, P (PDec f).
  Hypothesis HStr : forall s, P (PStr s).
  Hypothesis HBytes : forall b, P (PBytes b).
  Hypothesis HDate : forall d, P (PDate d).
  Hypothesis HTs : forall us tz, P (PTs us tz).
  Hypothesis HList : forall l, Forall P l -> P (PList l).
  Hypothesis HTuple : forall l, Forall P l -> P (PTuple l).
  Hypothesis HRow : forall fs, Forall (fun kv => P (snd kv)) fs -> P (PRow fs).
  Hypothesis HDict : forall kv, Forall (fun p => P (fst p) /\ P (snd p)) kv -> P (PDict kv).

  Fixpoint pyval_rect' (v : pyval) : P v :=
    match v with
    | PNone => HNone | PBool b => HBool b | PInt z => HInt z | PFloat f => HFloat f | PDec f => HDec f
    | PStr s => HStr s | PBytes b => HBytes b | PDate d => HDate d | PTs us tz => HTs us tz
    | PList l => HList l ((fix go (l : list pyval) : Forall P l :=
                             match l with [] => Forall_nil _ | x :: r => Forall_cons _ (pyval_rect' x) (go r) end) l)
    | PTuple l => HTuple l ((fix go (l : list pyval) : Forall P l :=
                             match l with [] => Forall_nil _ | x :: r => Forall_cons _ (pyval_rect' x) (go r) end) l)
    | PRow fs => HRow fs ((fix go (l : list (ustr * pyval)) : Forall (fun kv => P (snd kv)) l :=
                             match l with [] => Forall_nil _ | x :: r => Forall_cons _ (pyval_rect' (snd x)) (go r) end) fs)
    | PDict kv => HDict kv ((fix go (l : list (pyval * pyval)) : Forall (fun p => P (fst p) /\ P (snd p)) l :=
                             match l with [] => Forall_nil _
                             | x :: r => Forall_cons _ (conj (pyval_rect' (fst x)) (pyval_rect' (snd x))) (go r) end) kv)
    end.
End PyInd.

(* ------------------------------------------------------------------------------------------------ *)
(** * Python classes and isinstance *)

Inductive pycls := CNone | CBool | CInt | CFloat | CDecimal | CStr | CBytes | CDate | CDatetime
                 | CList | CSet | CTuple | CRow | CDict.

Definition all_cls := [CNone; CBool; CInt; CFloat; CDecimal; CStr; CBytes; CDate; CDatetime; CList; CSet; CTuple; CRow; CDict].

Definition cls_eqb (a b : pycls) : bool :=
  match a, b with
  | CNone, CNone | CBool, CBool | CInt, CInt | CFloat, CFloat | CDecimal, CDecimal | CStr, CStr | CBytes, CBytes
  | CDate, CDate | CDatetime, CDatetime | CList, CList | CSet, CSet | CTuple, CTuple | CRow, CRow | CDict, CDict => true
  | _, _ => false
  end.

(** CPython's class hierarchy on these classes: bool <: int, datetime <: date, Row <: tuple *)
Definition subclass (c d : pycls) : bool :=
  cls_eqb c d ||
  match c, d with
  | CBool, CInt | CDatetime, CDate | CRow, CTuple => true
  | _, _ => false
  end.

Definition cls_of (v : pyval) : pycls :=
  match v with
  | PNone => CNone | PBool _ => CBool | PInt _ => CInt | PFloat _ => CFloat | PDec _ => CDecimal
  | PStr _ => CStr | PBytes _ => CBytes | PDate _ => CDate | PTs _ _ => CDatetime
  | PList _ => CList | PTuple _ => CTuple | PRow _ => CRow | PDict _ => CDict
  end.

(** guards that accompany an isinstance test *)
Inductive guard := GAlways | GNan | GInf | GNul | GTruthy | GMapLike.
(** the float flavour of a value, all a guard can look at besides the class *)
Inductive flav := FlPlain | FlNan | FlInf | FlNul.
Definition flav_of (v : pyval) : flav :=
  match v with
  | PFloat FNaN => FlNan | PFloat (FInf _) => FlInf
  | PStr s => if nul_free s then FlPlain else FlNul     (* a str that contains U+0000 *)
  | _ => FlPlain
  end.

(** a dispatch chain: if isinstance(value, classes) [and guard]: action; elif ... *)
Definition chain (A : Type) := list (list pycls * guard * A).

(* ------------------------------------------------------------------------------------------------ *)
(** * Types as createDataFrame builds them (Spark type strings) *)

Inductive sty :=
| TBool | TByte | TShort | TInt | TBigint | TFloat | TDouble | TString | TBinary | TDate
| TTimestamp | TTimestampTz
| TArray (t : sty) | TStruct (fs : list (ustr * sty)) | TMap (k v : sty).

Fixpoint sty_eqb (a b : sty) : bool :=
  match a, b with
  | TBool, TBool | TByte, TByte | TShort, TShort | TInt, TInt | TBigint, TBigint | TFloat, TFloat | TDouble, TDouble
  | TString, TString | TBinary, TBinary | TDate, TDate | TTimestamp, TTimestamp | TTimestampTz, TTimestampTz => true
  | TArray x, TArray y => sty_eqb x y
  | TStruct xs, TStruct ys =>
      (fix go (xs ys : list (ustr * sty)) : bool :=
         match xs, ys with
         | [], [] => true
         | (k, x) :: xr, (k', y) :: yr => ueqb k k' && sty_eqb x y && go xr yr
         | _, _ => false
         end) xs ys
  | TMap k v, TMap k' v' => sty_eqb k k' && sty_eqb v v'
  | _, _ => false
  end.

Section StyInd.
  Variable P : sty -> Prop.
  Hypothesis Hprim : forall t, match t with TArray _ | TStruct _ | TMap _ _ => True | _ => P t end.
  Hypothesis Harr : forall t, P t -> P (TArray t).
  Hypothesis Hstruct : forall fs, Forall (fun kt => P (snd kt)) fs -> P (TStruct fs).
  Hypothesis Hmap : forall k v, P k -> P v -> P (TMap k v).
  Fixpoint sty_rect' (t : sty) : P t :=
    match t as t0 return P t0 with
    | TArray t' => Harr t' (sty_rect' t')
    | TStruct fs => Hstruct fs ((fix go (l : list (ustr * sty)) : Forall (fun kt => P (snd kt)) l :=
                       match l with [] => Forall_nil _ | x :: r => Forall_cons _ (sty_rect' (snd x)) (go r) end) fs)
    | TMap k v => Hmap k v (sty_rect' k) (sty_rect' v)
    | TBool => Hprim TBool | TByte => Hprim TByte | TShort => Hprim TShort | TInt => Hprim TInt
    | TBigint => Hprim TBigint | TFloat => Hprim TFloat | TDouble => Hprim TDouble | TString => Hprim TString
    | TBinary => Hprim TBinary | TDate => Hprim TDate | TTimestamp => Hprim TTimestamp
    | TTimestampTz => Hprim TTimestampTz
    end.
End StyInd.

Lemma sty_eqb_refl : forall t, sty_eqb t t = true.
Proof.
  apply sty_rect'.
  - destruct t; try exact I; reflexivity.
  - intros t H; exact H.
  - intros fs H. cbn [sty_eqb]. induction H as [|[k x] r Hx Hr IH]; [reflexivity|].
    cbn [snd] in Hx. rewrite ueqb_refl, Hx. exact IH.
  - intros k v Hk Hv. cbn [sty_eqb]. rewrite Hk, Hv. reflexivity.
Qed.

Lemma sty_eqb_eq : forall a b, sty_eqb a b = true -> a = b.
Proof.
  apply (sty_rect' (fun a => forall b, sty_eqb a b = true -> a = b)).
  - destruct t; try exact I; destruct b; cbn; congruence.
  - intros t IH b H. destruct b; try discriminate. cbn [sty_eqb] in H. f_equal. apply IH; exact H.
  - intros fs HF b H. destruct b as [| | | | | | | | | | | | |ys|]; try discriminate. cbn [sty_eqb] in H. f_equal.
    revert ys H. induction HF as [|[k x] r Hx Hr IH]; intros ys H.
    + destruct ys; [reflexivity|discriminate].
    + destruct ys as [|[k' y] yr]; [discriminate|].
      apply andb_true_iff in H. destruct H as [H H3]. apply andb_true_iff in H. destruct H as [H1 H2].
      apply ueqb_eq in H1. cbn [snd] in Hx. apply Hx in H2. subst. f_equal. apply IH; exact H3.
  - intros k v Hk Hv b H. destruct b; try discriminate. cbn [sty_eqb] in H.
    apply andb_true_iff in H. destruct H as [H1 H2]. f_equal; [apply Hk|apply Hv]; assumption.
Qed.

Definition osty_eqb (a b : option sty) : bool :=
  match a, b with Some x, Some y => sty_eqb x y | None, None => true | _, _ => false end.

(* ------------------------------------------------------------------------------------------------ *)
(** * First-row type inference *)

(** what a branch of get_default_data_type does *)
Inductive ikind :=
| KStruct        (* struct of the fields whose type could be inferred (fields without a type are skipped) *)
| KMap           (* map<type of first key, type of first value> *)
| KArray         (* array<type of first element>; empty -> no type *)
| KDatetime      (* timestamptz if tzinfo else timestamp *)
| KPrim (t : sty).

Definition ikind_eqb (a b : ikind) : bool :=
  match a, b with
  | KStruct, KStruct | KMap, KMap | KArray, KArray | KDatetime, KDatetime => true
  | KPrim x, KPrim y => sty_eqb x y
  | _, _ => false
  end.

Definition first_match {A} (ch : chain A) (c : pycls) (fl : flav) (truthy maplike : bool) : option A :=
  match find (fun e => match e with (cs, g, _) =>
                 existsb (subclass c) cs &&
                 match g with
                 | GAlways => true
                 | GNan => match fl with FlNan => true | _ => false end
                 | GNul => match fl with FlNul => true | _ => false end
                 | GInf => match fl with FlInf => true | _ => false end
                 | GTruthy => truthy
                 | GMapLike => maplike
                 end end) ch with
  | Some (_, _, a) => Some a
  | None => None
  end.

(** what the source is expected to decide for each class (the property needs exactly this) *)
Definition std_kind (c : pycls) : option ikind :=
  match c with
  | CRow => Some KStruct | CDict => Some KMap | CList | CSet | CTuple => Some KArray
  | CBool => Some (KPrim TBool) | CBytes => Some (KPrim TBinary) | CInt => Some (KPrim TBigint)
  | CFloat => Some (KPrim TDouble) | CDatetime => Some KDatetime | CDate => Some (KPrim TDate)
  | CStr => Some (KPrim TString)
  | CNone | CDecimal => None
  end.

Definition okind_eqb (a b : option ikind) : bool :=
  match a, b with Some x, Some y => ikind_eqb x y | None, None => true | _, _ => false end.

Definition infer_chain_ok (ch : chain ikind) : bool :=
  forallb (fun c => okind_eqb (first_match ch c FlPlain true false) (std_kind c)) all_cls
  && forallb (fun e => match e with (_, GAlways, _) => true | _ => false end) ch.

Section Infer.
  Variable ch : chain ikind.

  Definition kind_of (v : pyval) : option ikind := first_match ch (cls_of v) FlPlain true false.

  (** get_default_data_type, driven by the regenerated chain *)
  Fixpoint infer (v : pyval) : option sty :=
    match kind_of v with
    | Some (KPrim t) => Some t
    | Some KDatetime => match v with PTs _ (Some _) => Some TTimestampTz | _ => Some TTimestamp end
    | Some KArray =>
        match v with
        | PList (x :: _) | PTuple (x :: _) => option_map TArray (infer x)
        | PRow ((_, x) :: _) => option_map TArray (infer x)
        | _ => None
        end
    | Some KStruct =>
        match v with
        | PRow fs => Some (TStruct ((fix go (fs : list (ustr * pyval)) : list (ustr * sty) :=
                                       match fs with
                                       | [] => []
                                       | (k, x) :: r => match infer x with Some t => (k, t) :: go r | None => go r end
                                       end) fs))
        | _ => None
        end
    | Some KMap =>
        match v with
        | PDict ((k, x) :: _) => match infer k, infer x with Some a, Some b => Some (TMap a b) | _, _ => None end
        | _ => None
        end
    | None => None
    end.
End Infer.

(** the same function written by pattern matching: what PySpark-style inference from one value means *)
Fixpoint std_infer (v : pyval) : option sty :=
  match v with
  | PNone | PDec _ => None
  | PBool _ => Some TBool | PInt _ => Some TBigint | PFloat _ => Some TDouble | PStr _ => Some TString
  | PBytes _ => Some TBinary | PDate _ => Some TDate
  | PTs _ (Some _) => Some TTimestampTz | PTs _ None => Some TTimestamp
  | PList (x :: _) | PTuple (x :: _) => option_map TArray (std_infer x)
  | PList [] | PTuple [] => None
  | PRow fs => Some (TStruct ((fix go (fs : list (ustr * pyval)) : list (ustr * sty) :=
                                 match fs with
                                 | [] => []
                                 | (k, x) :: r => match std_infer x with Some t => (k, t) :: go r | None => go r end
                                 end) fs))
  | PDict ((k, x) :: _) => match std_infer k, std_infer x with Some a, Some b => Some (TMap a b) | _, _ => None end
  | PDict [] => None
  end.

Lemma okind_eqb_eq a b : okind_eqb a b = true -> a = b.
Proof.
  destruct a as [x|], b as [y|]; cbn; try congruence. intro H. f_equal.
  destruct x, y; cbn in H; try discriminate; try reflexivity. apply sty_eqb_eq in H. congruence.
Qed.

Lemma infer_chain_ok_kind ch : infer_chain_ok ch = true -> forall v, kind_of ch v = std_kind (cls_of v).
Proof.
  intros H v. unfold infer_chain_ok in H. apply andb_true_iff in H. destruct H as [H _].
  rewrite forallb_forall in H. unfold kind_of. apply okind_eqb_eq. apply H.
  destruct v; cbn; tauto.
Qed.

(** The regenerated chain computes the pattern-matching definition -- bool before int, datetime before date,
    Row before tuple are all inside [infer_chain_ok]. *)
Lemma infer_is_std ch : infer_chain_ok ch = true -> forall v, infer ch v = std_infer v.
Proof.
  intro Hok. pose proof (infer_chain_ok_kind ch Hok) as K.
  apply pyval_rect'.
  - cbn [infer]; rewrite K; reflexivity.
  - intro b; cbn [infer]; rewrite K; reflexivity.
  - intro z; cbn [infer]; rewrite K; reflexivity.
  - intro f; cbn [infer]; rewrite K; reflexivity.
  - intro f; cbn [infer]; rewrite K; reflexivity.
  - intro f; cbn [infer]; rewrite K; reflexivity.
  - intro f; cbn [infer]; rewrite K; reflexivity.
  - intro f; cbn [infer]; rewrite K; reflexivity.
  - intros us tz; destruct tz; cbn [infer]; rewrite K; reflexivity.
  - intros l H. cbn [infer]. rewrite K. cbn [cls_of std_kind std_infer]. destruct l as [|x r]; [reflexivity|].
    inversion H; subst. rewrite H2. reflexivity.
  - intros l H. cbn [infer]. rewrite K. cbn [cls_of std_kind std_infer]. destruct l as [|x r]; [reflexivity|].
    inversion H; subst. rewrite H2. reflexivity.
  - intros fs H. cbn [infer]. rewrite K. cbn [cls_of std_kind std_infer]. f_equal. f_equal.
    induction H as [|[k x] r Hx Hr IH]; [reflexivity|]. cbn [snd] in Hx. rewrite Hx, IH. reflexivity.
  - intros kv H. cbn [infer]. rewrite K. cbn [cls_of std_kind std_infer]. destruct kv as [|[k x] r]; [reflexivity|].
    inversion H; subst. cbn [fst snd] in H2. destruct H2 as [Hk Hx]. rewrite Hk, Hx. reflexivity.
Qed.

(* ------------------------------------------------------------------------------------------------ *)
(** * Typing *)

Definition int64 (z : Z) : bool := (-9223372036854775808 <=? z) && (z <=? 9223372036854775807).

(** [fits v t]: v is a value of (nullable) type t, field by field *)
Fixpoint fits (v : pyval) (t : sty) {struct v} : bool :=
  match v with
  | PNone => true
  | PBool _ => match t with TBool => true | _ => false end
  | PInt z => match t with TBigint => int64 z | _ => false end
  | PFloat _ => match t with TDouble => true | _ => false end
  | PDec _ => false
  | PStr _ => match t with TString => true | _ => false end
  | PBytes _ => match t with TBinary => true | _ => false end
  | PDate _ => match t with TDate => true | _ => false end
  | PTs _ None => match t with TTimestamp => true | _ => false end
  | PTs _ (Some _) => match t with TTimestampTz => true | _ => false end
  | PList l => match t with TArray t' => forallb (fun x => fits x t') l | _ => false end
  | PRow fs =>
      match t with
      | TStruct ts =>
          (fix go (fs : list (ustr * pyval)) (ts : list (ustr * sty)) : bool :=
             match fs, ts with
             | [], [] => true
             | (k, x) :: fr, (k', t') :: tr => ueqb k k' && fits x t' && go fr tr
             | _, _ => false
             end) fs ts
      | _ => false
      end
  | PTuple _ | PDict _ => false
  end.

(** the inputs on which inferring from the first element / skipping untyped fields loses nothing:
    every element of a list is None or has the inferred type of the first one, every struct field has a type *)
Fixpoint uniform (v : pyval) : bool :=
  match v with
  | PInt z => int64 z
  | PList l =>
      forallb uniform l &&
      match l with
      | [] => true
      | x :: _ => forallb (fun y => match y with PNone => true | _ => osty_eqb (std_infer y) (std_infer x) end) l
      end
  | PRow fs => forallb (fun kv => uniform (snd kv) && match std_infer (snd kv) with Some _ => true | None => false end) fs
  | PTuple _ | PDict _ | PDec _ => false
  | _ => true
  end.

Lemma osty_eqb_eq a b : osty_eqb a b = true -> a = b.
Proof. destruct a, b; cbn; try congruence. intro H; apply sty_eqb_eq in H; congruence. Qed.

Theorem std_infer_sound : forall v t, uniform v = true -> std_infer v = Some t -> fits v t = true.
Proof.
  apply (pyval_rect' (fun v => forall t, uniform v = true -> std_infer v = Some t -> fits v t = true)).
  - intros t _ H; discriminate.
  - intros b t _ H; cbn in H; inversion H; subst; reflexivity.
  - intros z t Hu H; cbn in H; inversion H; subst. exact Hu.
  - intros f t _ H; cbn in H; inversion H; subst; reflexivity.
  - intros f t _ H; discriminate.
  - intros f t _ H; cbn in H; inversion H; subst; reflexivity.
  - intros f t _ H; cbn in H; inversion H; subst; reflexivity.
  - intros f t _ H; cbn in H; inversion H; subst; reflexivity.
  - intros us tz t _ H; destruct tz; cbn in H; inversion H; subst; reflexivity.
  - (* list *)
    intros l H t H0 H1.
    destruct l as [|x r]; [discriminate|].
    cbn [std_infer] in H1. destruct (std_infer x) as [tx|] eqn:Ex; [|discriminate].
    cbn in H1. inversion H1; subst t. cbn [fits].
    cbn [uniform] in H0. apply andb_true_iff in H0. destruct H0 as [Hu Hs].
    rewrite forallb_forall in Hu, Hs. rewrite Forall_forall in H.
    apply forallb_forall. intros y Hy.
    specialize (Hs y Hy). destruct y; try reflexivity;
      (apply H; [exact Hy|apply Hu; exact Hy|rewrite <- Ex; apply osty_eqb_eq; exact Hs]).
  - intros l _ t Hu _; discriminate.
  - (* row *)
    intros fs H t H0 H1.
    cbn [std_infer] in H1. inversion H1; subst t; clear H1. cbn [fits].
    cbn [uniform] in H0. rewrite forallb_forall in H0. rewrite Forall_forall in H.
    induction fs as [|[k x] r IH]; [reflexivity|].
    assert (Hx := H0 (k, x) (or_introl eq_refl)). cbn [snd] in Hx.
    apply andb_true_iff in Hx. destruct Hx as [Hux Htx].
    destruct (std_infer x) as [tx|] eqn:Ex; [|discriminate].
    simpl. rewrite ueqb_refl.
    pose proof (H (k, x) (or_introl eq_refl) tx Hux Ex) as Hfx. cbn [snd] in Hfx. rewrite Hfx. cbn [andb].
    apply IH; intros.
    + apply H; [right; assumption|assumption|assumption].
    + apply H0; right; assumption.
  - intros kv _ t Hu _; discriminate.
Qed.

(** infer_type_sound, for the chain regenerated from source *)
Theorem infer_type_sound : forall ch, infer_chain_ok ch = true ->
  forall v t, uniform v = true -> infer ch v = Some t -> fits v t = true.
Proof. intros ch Hok v t Hu Hi. rewrite (infer_is_std ch Hok) in Hi. apply std_infer_sound; assumption. Qed.
