(** C09 -- the statements of the property file, proved for arbitrary chains / tables that pass the decidable
    side conditions (which coq/props/C09.v discharges on the facts regenerated from /repo). *)
From Coq Require Import NArith ZArith List Bool String.
From SF Require Import C09.Lex C09.Values C09.Pipeline C09.Schema.
Import ListNotations.

(** values the property text lists: None, bool, 64-bit int, float (any), str (ANY code points), bytes, date,
    timestamp, and nested lists / structs (non-empty, distinct field names) of these *)
Fixpoint listed (v : pyval) : bool :=
  match v with
  | PInt z => int64 z
  | PList l => forallb listed l
  | PRow fs => negb (match fs with [] => true | _ => false end) && nodup_keys fs && forallb (fun kv => listed (snd kv)) fs
  | PTuple _ | PDict _ | PDec _ => false
  | _ => true
  end.

Lemma std_lit_top_nested : forall v, untyped_ok v = true -> std_lit_top v = std_lit_nested v.
Proof. destruct v; try reflexivity. destruct f; try reflexivity. intro H; discriminate. Qed.

Section Main.
  Variable ich : chain ikind.
  Variable lch : chain lact.
  Variable fch : chain fact.
  Variable vch : chain vact.
  Variable tbl : list (string * string).
  Variable floats_via_lit : bool.     (* createDataFrame writes float cells through Column._lit *)
  Variable first_non_none : bool.     (* createDataFrame samples the first value that is not None *)

  Definition facts_ok : bool :=
    infer_chain_ok ich && lit_chain_ok lch && litfn_chain_ok fch && tovalue_chain_ok vch && mapping_ok tbl
    && floats_via_lit && first_non_none.

  Definition sample (vs : list pyval) : option pyval :=
    if first_non_none then find (fun v => match v with PNone => false | _ => true end) vs else hd_error vs.

  (** the whole property *)
  Definition full : Prop :=
    (* no string content can end a literal early or swallow what follows it *)
    (forall s p rest, In p (str_pieces s) -> starts_with QS rest = false ->
                      lex_string (render_string p ++ rest) = Some (p, rest))
    /\ (forall ps, wf (map (fun p => match p with Str _ => Str [] | x => x end) ps) = true ->
                   lex_stmt (render ps) = Some (toks ps))
    (* values: for every environment that behaves as assumed, every column of listed values *)
    /\ (forall eleaf cleaf pleaf round32, env_ok eleaf cleaf pleaf ->
        let C := col_pipeline eleaf cleaf pleaf round32 (cell_lit lch fch floats_via_lit) vch in
        let S := col_pipeline eleaf cleaf pleaf round32 (lit_top lch fch) vch in
        (* declared schema *)
        (forall t vs, forallb (fun v => listed v && fits v t) vs = true -> C (Some t) vs = map (fun v => Some (expected v)) vs)
        (* inferred schema: the column type comes from the sampled value *)
        /\ (forall vs, forallb listed vs = true ->
                       (forall v0 t, sample vs = Some v0 -> std_infer v0 = Some t -> forallb (fun v => fits v t) vs = true) ->
                       C (match sample vs with Some v0 => infer ich v0 | None => None end) vs = map (fun v => Some (expected v)) vs)
        (* lit() in select() *)
        /\ (forall v, listed v = true -> S None [v] = [Some (expected v)]))
    (* df.schema *)
    /\ (forall t, to_spark tbl (env_report t) = Some (report_expected t)).

  (** what is proved *)
  Definition partial : Prop :=
    (forall s rest, nul_free s = true -> starts_with QS rest = false ->
                    lex_string (render_string s ++ rest) = Some (s, rest))
    /\ (forall s p rest, In p (str_pieces s) -> starts_with QS rest = false ->
                         lex_string (render_string p ++ rest) = Some (p, rest))
    /\ (forall s rest, s <> [] -> nul_free s = true -> starts_with QI rest = false ->
                       lex_ident (render_ident s ++ rest) = Some (s, rest))
    /\ (forall ps, wf ps = true -> lex_stmt (render ps) = Some (toks ps))
    /\ (forall a b, wf a = true -> wf b = true -> same_shape a b = true ->
          exists ta tb, lex_stmt (render a) = Some ta /\ lex_stmt (render b) = Some tb /\ skeleton ta = skeleton tb)
    /\ (forall v t, uniform v = true -> infer ich v = Some t -> fits v t = true)
    /\ (forall eleaf cleaf pleaf round32, env_ok eleaf cleaf pleaf ->
        let C := col_pipeline eleaf cleaf pleaf round32 (cell_lit lch fch floats_via_lit) vch in
        let S := col_pipeline eleaf cleaf pleaf round32 (lit_top lch fch) vch in
        (forall t vs, forallb (col_member t) vs = true -> C (Some t) vs = map (fun v => Some (expected v)) vs)
        /\ (forall vs v0 t, sample vs = Some v0 -> uniform v0 = true -> infer ich v0 = Some t ->
                            forallb (col_member t) vs = true ->
                            C (match sample vs with Some v0 => infer ich v0 | None => None end) vs
                            = map (fun v => Some (expected v)) vs)
        /\ (forall vs, forallb supp vs = true -> C None vs = map (fun v => Some (expected v)) vs)
        /\ (forall v, untyped_ok v = true -> S None [v] = [Some (expected v)]))
    /\ (forall t, to_spark tbl (env_report t) = Some (report_expected t)).

  Theorem partial_holds : facts_ok = true -> partial.
  Proof.
    unfold facts_ok. intro H.
    apply andb_true_iff in H. destruct H as [H Hsn]. apply andb_true_iff in H. destruct H as [H Hfl].
    apply andb_true_iff in H. destruct H as [H Hm]. apply andb_true_iff in H. destruct H as [H Hv].
    apply andb_true_iff in H. destruct H as [H Hf]. apply andb_true_iff in H. destruct H as [Hi Hl].
    unfold partial, sample. rewrite Hfl, Hsn. clear Hfl Hsn.
    split; [exact string_roundtrip|].
    split; [intros s p rest Hin Hr; apply string_roundtrip; [|exact Hr];
            pose proof (str_pieces_nul_free s) as Hp; rewrite forallb_forall in Hp; exact (Hp p Hin)|].
    split; [exact ident_roundtrip|]. split; [exact stmt_roundtrip|].
    split; [exact structure_independent|]. split; [exact (infer_type_sound ich Hi)|].
    split; [|exact (schema_reports_declared tbl Hm)].
    intros eleaf cleaf pleaf round32 ENV. cbv zeta.
    assert (HC : forall vs v, In v vs -> cell_lit lch fch true v = std_lit_nested v)
      by (intros; apply cell_lit_is_std; assumption).
    split; [|split; [|split]].
    - intros t vs Hvs. exact (column_roundtrip _ _ _ round32 ENV _ vch Hv t vs (HC vs) Hvs).
    - intros vs v0 t Hs Hu Hinf Hvs. rewrite Hs, Hinf.
      exact (column_roundtrip _ _ _ round32 ENV _ vch Hv t vs (HC vs) Hvs).
    - intros vs Hvs. exact (column_untyped _ _ _ round32 ENV _ vch Hv vs (HC vs) Hvs).
    - intros v Hu. apply (column_untyped _ _ _ round32 ENV _ vch Hv [v]).
      + intros v' [E|[]]. subst v'. rewrite (lit_top_is_std lch fch Hl Hf). apply std_lit_top_nested. exact Hu.
      + cbn [forallb]. rewrite andb_true_r. destruct v; try exact Hu. reflexivity.
  Qed.
End Main.

(** non-vacuity: a nested value with every leaf kind, adversarial string content included, is in the domain *)
Definition sample_value : pyval :=
  PRow [([97]%N, PList [PStr [39; 39; 92; 45; 45; 47; 42; 10; 128512]%N; PNone; PStr []]);
        ([98]%N, PRow [([120]%N, PInt (-9223372036854775808)); ([121]%N, PFloat FNaN); ([104]%N, PList [PFloat (FInf true); PFloat (FFin 4607182418800017408 false)]);
                       ([122]%N, PList [PFloat (FFin 4609434218613702656 false)])]);
        ([99]%N, PList [PList [PBool true]; PList [PBool false; PNone]]); ([103]%N, PBytes [0; 39; 255]%N);
        ([100]%N, PList [PDate 1; PNone]); ([101]%N, PTs 0 (Some 120%Z)); ([102]%N, PTs (-1) None)].

Example sample_in_domain :
  supp sample_value = true /\ uniform sample_value = true /\
  exists t, std_infer sample_value = Some t /\ fits sample_value t = true.
Proof.
  split; [vm_compute; reflexivity|]. split; [vm_compute; reflexivity|].
  eexists. split; [vm_compute; reflexivity|vm_compute; reflexivity].
Qed.
