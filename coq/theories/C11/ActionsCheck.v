(** Executable glue for the C11 correspondence check (tie T3): one case = a C01-style program over an input
    frame, what collect() returned on the implementation, and what every other action returned on the SAME
    DataFrame.  For every observation Coq computes two verdicts:
      spec  : does the observation stand in the relation the property demands to the implementation's own
              collect() result (count = number of rows, head = first row, show = first n rows + names, ...)
      model : does the model of the action (C11/Actions.v, instantiated with the generated facts) return it. *)
From SF Require Export Model.ChainCheck C11.Actions.
From Coq Require Import DecimalString DecimalZ Decimal.
Open Scope Z_scope.

(** how results are compared: sequences where the order is determined, bags / lengths otherwise *)
Inductive cmode := CSeq | CBag | CLen.

Inductive obs :=
| OCount (z : Z)
| OIsEmpty (b : bool)
| OHead (r : option row)
| OFirst (r : option row)
| OHeadN (n : nat) (l : list row)
| OLimitN (n : nat) (l : list row)
| OPandas (names : list string) (l : list row)
| OArrow (names : list string) (l : list row)
| OShow (n : nat) (res : option (list string * list (list string)))   (* None: show raised *)
| OShowD (res : option (list string * list (list string)))            (* show() with the default n *)
| ORaised (what : string).

Record ccase := mkC {
  k_input : frame;
  k_ops : list uop;
  k_mode : cmode;
  k_collect : option (list string * list row);   (* names and rows collect() returned; None if it raised *)
  k_obs : list obs }.

(** what PrettyTable prints for a value: Python's str() *)
Definition render_val (v : val) : string :=
  match v with
  | VNull => "None"
  | VInt z => NilZero.string_of_int (Z.to_int z)
  | VStr s => s
  | VBool true => "True"
  | VBool false => "False"
  | VRat _ _ => "?"
  end%string.
Definition render_rows (l : list row) : list (list string) := map (map render_val) l.
Definition as_rows (l : list (list string)) : list row := map (map VStr) l.
Definition names_eqb := list_eqb String.eqb.
Definition cells_eqb := list_eqb (list_eqb String.eqb).

(** a printed header cell stands for a column: its name, or the name with an index suffix (sqlframe's way of
    telling repeated names apart; PySpark prints the repeated name itself) *)
Fixpoint strip_prefix (p s : string) : option string :=
  match p with
  | EmptyString => Some s
  | String x p' => match s with
                   | String y s' => if Ascii.eqb x y then strip_prefix p' s' else None
                   | EmptyString => None end
  end.
Definition is_digit (ch : Ascii.ascii) : bool :=
  let n := Ascii.nat_of_ascii ch in (Nat.leb 48 n && Nat.leb n 57)%bool.
Fixpoint all_digits (s : string) : bool :=
  match s with EmptyString => true | String ch s' => is_digit ch && all_digits s' end.
Definition renamed_of (f o : string) : bool :=
  match strip_prefix (f ++ "_")%string o with
  | Some (String ch r) => all_digits (String ch r)
  | _ => false
  end.
Definition header_ok (ns cn : list string) : bool :=
  list_eqb (fun o f => String.eqb o f || renamed_of f o) ns cn.

(** PySpark's default n of show() *)
Definition spark_show_default : nat := 20.

Definition opt_row_eqb (x y : option row) : bool :=
  match x, y with Some p, Some q => row_eqb p q | None, None => true | _, _ => false end.

(** l is "the first n rows" of ref, as far as the order of ref is determined *)
Definition prefix_rel (m : cmode) (n : nat) (ref l : list row) : bool :=
  match m with
  | CSeq => rows_eqb (firstn n ref) l
  | CBag => Nat.eqb (List.length l) (Nat.min n (List.length ref)) && subbag l ref
  | CLen => Nat.eqb (List.length l) (Nat.min n (List.length ref))
  end.
Definition same_rel (m : cmode) (ref l : list row) : bool :=
  match m with CSeq => rows_eqb ref l | CBag => bag_eqb ref l | CLen => Nat.eqb (List.length ref) (List.length l) end.
Definition first_rel (m : cmode) (ref : list row) (r : option row) : bool :=
  match r with
  | None => Nat.eqb (List.length ref) 0
  | Some x => prefix_rel m 1 ref [x]
  end.

Section Check.
  Variable c : cfg.
  Variable a : afacts.
  Variable path_of : action -> spath.

  Definition spec_ok (m : cmode) (cn : list string) (cr : list row) (o : obs) : bool :=
    match o with
    | OCount z => Z.eqb z (Z.of_nat (List.length cr))
    | OIsEmpty b => Bool.eqb b (Nat.eqb (List.length cr) 0)
    | OHead r | OFirst r => first_rel m cr r
    | OHeadN n l | OLimitN n l => prefix_rel m n cr l
    | OPandas ns l | OArrow ns l => names_eqb ns cn && same_rel m cr l
    | OShow n (Some (ns, cells)) =>
        header_ok ns cn && prefix_rel m n (as_rows (render_rows cr)) (as_rows cells)
    | OShowD (Some (ns, cells)) =>
        header_ok ns cn && prefix_rel m spark_show_default (as_rows (render_rows cr)) (as_rows cells)
    | OShow _ None | OShowD None => false
    | ORaised _ => false
    end.

  Definition hres_rows (h : hres) : list row :=
    match h with HRow None => [] | HRow (Some r) => [r] | HList l => l end.

  Definition show_obs (exact : bool) (sm : sres) (res : option (list string * list (list string))) : bool :=
    match sm, res with
    | SRaise, None => true
    | STable ns body, Some (ns', cells) =>
        names_eqb ns ns' &&
        (if exact then cells_eqb (render_rows body) cells else Nat.eqb (List.length body) (List.length cells))
    | _, _ => false
    end.

  Definition model_ok (m : cmode) (d : df) (input : frame) (o : obs) : bool :=
    let exact := match m with CSeq => true | _ => false end in
    match o with
    | OCount z => match count_model a d input with Some z' => Z.eqb z z' | None => false end
    | OIsEmpty b => Bool.eqb b (isempty_model c a d input)
    | OHead r =>
        match head_model c a None d input with
        | HRow r' => if exact then opt_row_eqb r r' else Bool.eqb (match r with None => true | _ => false end)
                                                                  (match r' with None => true | _ => false end)
        | HList _ => false end
    | OFirst r =>
        match first_model c a d input with
        | HRow r' => if exact then opt_row_eqb r r' else Bool.eqb (match r with None => true | _ => false end)
                                                                  (match r' with None => true | _ => false end)
        | HList _ => false end
    | OHeadN n l =>
        match head_model c a (Some n) d input with
        | HList l' => if exact then rows_eqb l' l else Nat.eqb (List.length l') (List.length l)
        | HRow _ => false end
    | OLimitN n l =>
        let l' := collect (limit_df c n d) input in
        if exact then rows_eqb l' l else Nat.eqb (List.length l') (List.length l)
    | OPandas ns l => spath_eqb (path_of AToPandas) (path_of ACollect) && names_eqb ns (columns d) && same_rel m (collect d input) l
    | OArrow ns l => spath_eqb (path_of AToArrow) (path_of ACollect) && names_eqb ns (columns d) && same_rel m (collect d input) l
    | OShow n res => show_obs exact (show_model c a n d input) res
    | OShowD res => show_obs exact (show_model c a (Z.to_nat (a_show_default a)) d input) res
    | ORaised _ => false
    end.

  (** do the model's own answers satisfy the theorems' right-hand sides on this case?  (sanity of the
      instantiation: must be true whenever the case is in the theorems' domain) *)
  Definition show_thm (p : list row) (sm : sres) (cs : list string) : bool :=
    match sm with
    | STable ns body => names_eqb ns cs && rows_eqb body p
    | SRaise => false
    end.

  Definition thm_ok (d : df) (input : frame) (o : obs) : bool :=
    let l := collect d input in
    match o with
    | OCount _ => match count_model a d input with Some z => Z.eqb z (Z.of_nat (List.length l)) | None => false end
    | OIsEmpty _ => Bool.eqb (isempty_model c a d input) (Nat.eqb (List.length l) 0)
    | OHead _ => match head_model c a None d input with HRow r => opt_row_eqb r (hd_error l) | _ => false end
    | OFirst _ => match first_model c a d input with HRow r => opt_row_eqb r (hd_error l) | _ => false end
    | OHeadN n _ => match head_model c a (Some n) d input with HList l' => rows_eqb l' (firstn n l) | _ => false end
    | OLimitN n _ => rows_eqb (collect (limit_df c n d) input) (firstn n l)
    | OShow n _ => show_thm (firstn n l) (show_model c a n d input) (columns d)
    | OShowD _ => let n := Z.to_nat (a_show_default a) in show_thm (firstn n l) (show_model c a n d input) (columns d)
    | _ => true
    end.

  Definition b2c (b : bool) : string := if b then "1" else "0".

  (** verdict: collect impl vs model (1 equal in the case's mode | 2 CSeq case whose rows agree only as a bag: the
      engine did not keep the order, C01's finding; the case is then judged as CBag | 0 different) | in C01's domain |
      theorems hold on the model | per observation: spec, model *)
  Definition check (k : ccase) : string :=
    let ics := cols (k_input k) in
    let ops := desugar_all ics (k_ops k) in
    let d := compile c ops (init_df ics) in
    let dom := ops_ok c (init_df ics) ics ops in
    let thm := forallb (thm_ok d (k_input k)) (k_obs k) in
    match k_collect k with
    | Some (cn, cr) =>
        let ml := collect d (k_input k) in
        let nm := names_eqb cn (columns d) in
        let downgraded := match k_mode k with CSeq => negb (rows_eqb ml cr) | _ => false end in
        let m := if downgraded then CBag else k_mode k in
        let cm := (if nm && same_rel m ml cr then (if downgraded then "2" else "1") else "0")%string in
        (cm ++ b2c dom ++ b2c thm ++
         String.concat "" (map (fun o => b2c (spec_ok m cn cr o) ++ b2c (model_ok m d (k_input k) o)) (k_obs k)))%string
    | None => ("0" ++ b2c dom ++ b2c thm)%string
    end.
End Check.

(** DataFrames the chain model does not compile (joins, aggregation, set operations): only the relation the
    property demands between every observation and the implementation's own collect() is computed. *)
Definition check_opaque (k : ccase) : string :=
  match k_collect k with
  | Some (cn, cr) => String.concat "" (map (fun o => b2c (spec_ok (k_mode k) cn cr o)) (k_obs k))
  | None => ""%string
  end.
