(** C11 -- [Row._unique_field_names]: the renaming loop show() uses to make PrettyTable's header unique.

    The loop is modelled by the combinator [ufn ren]: walk the field names with their index, keep the
    list [acc] of names already emitted, emit [ren acc i field].  The body [ren] is GENERATED from
    sqlframe/base/types.py (translate/c11_facts.py); everything here is parametric in it.

    - [ufn_nodup_fresh]  : any body that always returns a name not yet emitted gives a duplicate-free
                           header for EVERY field list (what the property needs);
    - [ufn_nodup]        : the body sqlframe has ("append _<index> when the name was already emitted")
                           gives a duplicate-free header on the decidable domain [clash_free];
    - [ufn_id]           : and leaves duplicate-free field lists unchanged;
    - the refutation outside [clash_free] is a closed witness in coq/props/C11.v. *)
From SF Require Export Sql.Norm.
From Coq Require Import Ascii DecimalString DecimalNat Decimal.

(** Python's [str(i)] for a non-negative index *)
Definition str_of_nat (n : nat) : string := NilEmpty.string_of_uint (Nat.to_uint n).

Lemma NoDup_app_snoc {A} (l : list A) x : NoDup l -> ~ In x l -> NoDup (l ++ [x]).
Proof.
  intros Hnd Hx. induction Hnd as [|y l Hy Hnd IH]; simpl.
  - constructor; [intros []|constructor].
  - constructor.
    + intro Hin. apply in_app_or in Hin. destruct Hin as [Hin | [<- | []]]; [exact (Hy Hin)|].
      apply Hx; left; reflexivity.
    + apply IH. intro H; apply Hx; right; exact H.
Qed.

(** * The loop *)
Section Loop.
  Variable ren : list string -> nat -> string -> string.

  Fixpoint ufn_go (acc : list string) (i : nat) (fs : list string) : list string :=
    match fs with
    | [] => acc
    | f :: fs' => ufn_go (acc ++ [ren acc i f]) (S i) fs'
    end.
  Definition ufn (fs : list string) : list string := ufn_go [] 0 fs.

  Lemma ufn_go_length acc i fs : List.length (ufn_go acc i fs) = (List.length acc + List.length fs)%nat.
  Proof.
    revert acc i; induction fs as [|f fs IH]; intros acc i; simpl; [lia|].
    rewrite IH, app_length; simpl; lia.
  Qed.
  Lemma ufn_length fs : List.length (ufn fs) = List.length fs.
  Proof. unfold ufn. rewrite ufn_go_length. reflexivity. Qed.

  (** a body that never returns an already emitted name: no duplicates, for every input *)
  Lemma ufn_go_nodup_fresh :
    (forall acc i f, ~ In (ren acc i f) acc) ->
    forall fs acc i, NoDup acc -> NoDup (ufn_go acc i fs).
  Proof.
    intros Hfresh fs; induction fs as [|f fs IH]; intros acc i Hnd; simpl; [exact Hnd|].
    apply IH. apply NoDup_app_snoc; auto.
  Qed.
  Theorem ufn_nodup_fresh :
    (forall acc i f, ~ In (ren acc i f) acc) -> forall fs, NoDup (ufn fs).
  Proof. intros H fs. apply ufn_go_nodup_fresh; [exact H | constructor]. Qed.
End Loop.

(** * Strings: an underscore followed by decimal digits determines the digits *)
Open Scope string_scope.
Definition us : ascii := "_"%char.
Fixpoint no_us (s : string) : bool :=
  match s with EmptyString => true | String ch s' => negb (Ascii.eqb ch us) && no_us s' end.

Lemma app_assoc_s (a b d : string) : (a ++ b) ++ d = a ++ (b ++ d).
Proof. induction a as [|ch a IH]; simpl; [reflexivity | rewrite IH; reflexivity]. Qed.

Lemma no_us_app_us a b : no_us (a ++ String us b) = false.
Proof.
  induction a as [|ch a IH]; simpl.
  - reflexivity.
  - rewrite IH. apply andb_false_r.
Qed.

Lemma split_us a : forall b s t,
  no_us s = true -> no_us t = true -> a ++ String us s = b ++ String us t -> a = b /\ s = t.
Proof.
  induction a as [|ch a IH]; intros [|ch' b] s t Hs Ht H; simpl in H.
  - inversion H; auto.
  - inversion H; subst. rewrite no_us_app_us in Hs; discriminate.
  - inversion H; subst. rewrite no_us_app_us in Ht; discriminate.
  - inversion H; subst. destruct (IH b s t Hs Ht H2) as [-> ->]. auto.
Qed.

Lemma no_us_uint d : no_us (NilEmpty.string_of_uint d) = true.
Proof. induction d; simpl; auto. Qed.

Lemma str_of_nat_inj i j : str_of_nat i = str_of_nat j -> i = j.
Proof.
  unfold str_of_nat. intro H.
  assert (E : Some (Nat.to_uint i) = Some (Nat.to_uint j)).
  { rewrite <- !NilEmpty.usu. rewrite H. reflexivity. }
  inversion E as [E'].
  rewrite <- (Unsigned.of_to i), <- (Unsigned.of_to j), E'. reflexivity.
Qed.

(** the renamed form sqlframe builds: [field + "_" + str(i)] *)
Definition suffixed (f : string) (i : nat) : string := (f ++ "_") ++ str_of_nat i.

Lemma suffixed_inj f g i j : suffixed f i = suffixed g j -> f = g /\ i = j.
Proof.
  unfold suffixed. rewrite !app_assoc_s. simpl. intro H.
  apply split_us in H; try apply no_us_uint.
  destruct H as [-> H]. split; [reflexivity | apply str_of_nat_inj; exact H].
Qed.

Close Scope string_scope.

Lemma mem_In n l : mem n l = true <-> In n l.
Proof.
  unfold mem. rewrite existsb_exists. split.
  - intros [x [Hx He]]. apply String.eqb_eq in He. subst; exact Hx.
  - intro H. exists n. split; [exact H | apply String.eqb_refl].
Qed.

(** * sqlframe's body: rename to [field_<i>] iff the name was already emitted *)
Definition ren_spec (ren : list string -> nat -> string -> string) : Prop :=
  forall acc i f, ren acc i f = if mem f acc then suffixed f i else f.

(** decidable domain: no field name already looks like another field name with an index suffix *)
Definition clash_free (fs : list string) : bool :=
  forallb (fun f => negb (existsb (fun g => existsb (fun j => String.eqb f (suffixed g j))
                                               (seq 0 (List.length fs))) fs)) fs.

Lemma clash_free_sound fs : clash_free fs = true ->
  forall f g j, In f fs -> In g fs -> (j < List.length fs)%nat -> f <> suffixed g j.
Proof.
  unfold clash_free. intros H f g j Hf Hg Hj E.
  rewrite forallb_forall in H. specialize (H f Hf). apply negb_true_iff in H.
  assert (X : existsb (fun g0 => existsb (fun j0 => String.eqb f (suffixed g0 j0)) (seq 0 (List.length fs))) fs = true);
    [|congruence].
  apply existsb_exists. exists g. split; [exact Hg|].
  apply existsb_exists. exists j. split; [apply in_seq; lia | rewrite E; apply String.eqb_refl].
Qed.

Section Current.
  Variable ren : list string -> nat -> string -> string.
  Hypothesis Hren : ren_spec ren.

  (** every emitted name is an original name or the renamed form of an original name at an index
      already passed *)
  Definition emitted (all : list string) (i : nat) (x : string) : Prop :=
    In x all \/ exists g k, In g all /\ (k < i)%nat /\ x = suffixed g k.

  Lemma ufn_go_nodup all : clash_free all = true ->
    forall fs pre acc, all = pre ++ fs -> NoDup acc -> (forall x, In x acc -> emitted all (List.length pre) x) ->
    NoDup (ufn_go ren acc (List.length pre) fs).
  Proof.
    intro Hcf. pose proof (clash_free_sound all Hcf) as Hc.
    induction fs as [|f fs IH]; intros pre acc Hall Hnd Hem; simpl; [exact Hnd|].
    assert (Hf : In f all) by (rewrite Hall; apply in_or_app; right; left; reflexivity).
    assert (Hi : (List.length pre < List.length all)%nat).
    { rewrite Hall, app_length; simpl; lia. }
    replace (S (List.length pre)) with (List.length (pre ++ [f])) by (rewrite app_length; simpl; lia).
    apply IH.
    - rewrite <- app_assoc. exact Hall.
    - apply NoDup_app_snoc; [exact Hnd|].
      rewrite Hren. destruct (mem f acc) eqn:Em.
      + intro Hin. destruct (Hem _ Hin) as [Ho | (g & k & Hg & Hk & E)].
        * exact (Hc _ _ _ Ho Hf Hi eq_refl).
        * apply suffixed_inj in E. lia.
      + intro Hin. apply mem_In in Hin. congruence.
    - intros x Hx. rewrite app_length; simpl.
      apply in_app_or in Hx. destruct Hx as [Hx | [<- | []]].
      + destruct (Hem _ Hx) as [Ho | (g & k & Hg & Hk & E)]; [left; exact Ho|].
        right. exists g, k. repeat split; auto; lia.
      + rewrite Hren. destruct (mem f acc); [|left; exact Hf].
        right. exists f, (List.length pre). repeat split; auto; lia.
  Qed.

  Theorem ufn_nodup fs : clash_free fs = true -> NoDup (ufn ren fs).
  Proof.
    intro H. apply (ufn_go_nodup fs H fs [] []); [reflexivity | constructor | intros x []].
  Qed.

  (** duplicate-free field lists are printed as they are *)
  Lemma ufn_go_id fs : forall acc i, NoDup (acc ++ fs) -> ufn_go ren acc i fs = acc ++ fs.
  Proof.
    induction fs as [|f fs IH]; intros acc i Hnd; simpl; [rewrite app_nil_r; reflexivity|].
    assert (Hn : mem f acc = false).
    { destruct (mem f acc) eqn:E; [|reflexivity]. apply mem_In in E.
      apply NoDup_remove_2 in Hnd. exfalso; apply Hnd. apply in_or_app; left; exact E. }
    rewrite Hren, Hn. rewrite IH; rewrite <- app_assoc; simpl; [reflexivity | exact Hnd].
  Qed.
  Theorem ufn_id fs : NoDup fs -> ufn ren fs = fs.
  Proof. intro H. unfold ufn. rewrite ufn_go_id; [reflexivity | exact H]. Qed.

  (** position by position the header is the column name or its indexed form *)
  Lemma ufn_go_shape fs : forall acc i,
    exists out, ufn_go ren acc i fs = acc ++ out /\
                Forall2 (fun f o => o = f \/ exists k, o = suffixed f k) fs out.
  Proof.
    induction fs as [|f fs IH]; intros acc i; simpl.
    - exists []. rewrite app_nil_r. split; [reflexivity | constructor].
    - destruct (IH (acc ++ [ren acc i f]) (S i)) as (out & E & F).
      exists (ren acc i f :: out). split; [rewrite E, <- app_assoc; reflexivity|].
      constructor; [|exact F]. rewrite Hren. destruct (mem f acc); [right; exists i; reflexivity | left; reflexivity].
  Qed.
  Theorem ufn_shape fs : Forall2 (fun f o => o = f \/ exists k, o = suffixed f k) fs (ufn ren fs).
  Proof. destruct (ufn_go_shape fs [] 0) as (out & E & F). unfold ufn. rewrite E. exact F. Qed.
End Current.

(** * The repaired body: advance the suffix until the name is unused

    Python:  unique, n = field, i
             while unique in fields: unique = field + "_" + str(n); n += 1
    [while_fresh bad mk start i fuel] is that loop with the condition [bad], the candidate [mk n] and at most
    [fuel] iterations.  With [fuel > length fields] the bound is never reached (pigeonhole: the candidates are
    pairwise different), which is what [while_fresh_is_fresh] proves. *)
Definition while_fresh (bad : string -> bool) (mk : nat -> string) (start : string) (i fuel : nat) : string :=
  if bad start then
    match find (fun k => negb (bad (mk k))) (seq i fuel) with
    | Some k => mk k
    | None => start
    end
  else start.

Definition ren_fresh_spec (ren : list string -> nat -> string -> string) : Prop :=
  forall acc i f, ren acc i f = while_fresh (fun u => mem u acc) (suffixed f) f i (S (List.length acc)).

Lemma suffixed_seq_nodup f i n : NoDup (map (suffixed f) (seq i n)).
Proof.
  revert i; induction n as [|n IH]; intro i; simpl; constructor; [|apply IH].
  intro Hin. apply in_map_iff in Hin. destruct Hin as [k [E Hk]].
  apply suffixed_inj in E. destruct E as [_ E]. apply in_seq in Hk. lia.
Qed.

Lemma while_fresh_is_fresh acc i f :
  ~ In (while_fresh (fun u => mem u acc) (suffixed f) f i (S (List.length acc))) acc.
Proof.
  unfold while_fresh. destruct (mem f acc) eqn:Em.
  - destruct (find _ _) as [k|] eqn:Ef.
    + apply find_some in Ef. destruct Ef as [_ Hk]. apply negb_true_iff in Hk.
      intro Hin. apply mem_In in Hin. congruence.
    + exfalso.
      assert (Hincl : incl (map (suffixed f) (seq i (S (List.length acc)))) acc).
      { intros x Hx. apply in_map_iff in Hx. destruct Hx as [k [<- Hk]].
        pose proof (find_none _ _ Ef k Hk) as Hb. apply negb_false_iff in Hb. apply mem_In; exact Hb. }
      pose proof (NoDup_incl_length (suffixed_seq_nodup f i (S (List.length acc))) Hincl) as Hlen.
      rewrite map_length, seq_length in Hlen. lia.
  - intro Hin. apply mem_In in Hin. congruence.
Qed.

Section Fresh.
  Variable ren : list string -> nat -> string -> string.
  Hypothesis Hren : ren_fresh_spec ren.

  Lemma ren_fresh acc i f : ~ In (ren acc i f) acc.
  Proof. rewrite Hren. apply while_fresh_is_fresh. Qed.

  (** the header never repeats a name -- for EVERY field list *)
  Theorem ufn_nodup_total fs : NoDup (ufn ren fs).
  Proof. apply ufn_nodup_fresh. exact ren_fresh. Qed.

  Lemma ren_keeps acc i f : mem f acc = false -> ren acc i f = f.
  Proof. intro H. rewrite Hren. unfold while_fresh. rewrite H. reflexivity. Qed.

  Lemma ren_shape acc i f : ren acc i f = f \/ exists k, ren acc i f = suffixed f k.
  Proof.
    rewrite Hren. unfold while_fresh. destruct (mem f acc); [|left; reflexivity].
    destruct (find _ _) as [k|]; [right; exists k; reflexivity | left; reflexivity].
  Qed.

  Lemma ufn_go_id_f fs : forall acc i, NoDup (acc ++ fs) -> ufn_go ren acc i fs = acc ++ fs.
  Proof.
    induction fs as [|f fs IH]; intros acc i Hnd; simpl; [rewrite app_nil_r; reflexivity|].
    assert (Hn : mem f acc = false).
    { destruct (mem f acc) eqn:E; [|reflexivity]. apply mem_In in E.
      apply NoDup_remove_2 in Hnd. exfalso; apply Hnd. apply in_or_app; left; exact E. }
    rewrite (ren_keeps _ _ _ Hn). rewrite IH; rewrite <- app_assoc; simpl; [reflexivity | exact Hnd].
  Qed.
  (** duplicate-free field lists are printed as they are *)
  Theorem ufn_id_f fs : NoDup fs -> ufn ren fs = fs.
  Proof. intro H. unfold ufn. rewrite ufn_go_id_f; [reflexivity | exact H]. Qed.

  Lemma ufn_go_shape_f fs : forall acc i,
    exists out, ufn_go ren acc i fs = acc ++ out /\
                Forall2 (fun f o => o = f \/ exists k, o = suffixed f k) fs out.
  Proof.
    induction fs as [|f fs IH]; intros acc i; simpl.
    - exists []. rewrite app_nil_r. split; [reflexivity | constructor].
    - destruct (IH (acc ++ [ren acc i f]) (S i)) as (out & E & F).
      exists (ren acc i f :: out). split; [rewrite E, <- app_assoc; reflexivity|].
      constructor; [apply ren_shape | exact F].
  Qed.
  (** position by position the header is the column name or that name with an index suffix *)
  Theorem ufn_shape_f fs : Forall2 (fun f o => o = f \/ exists k, o = suffixed f k) fs (ufn ren fs).
  Proof. destruct (ufn_go_shape_f fs [] 0) as (out & E & F). unfold ufn. rewrite E. exact F. Qed.
End Fresh.

Lemma nodupb_complete l : NoDup l -> nodupb l = true.
Proof.
  induction 1 as [|x l Hx Hnd IH]; simpl; [reflexivity|].
  rewrite IH, andb_true_r. apply negb_true_iff.
  destruct (mem x l) eqn:Em; [|reflexivity]. apply mem_In in Em. contradiction.
Qed.
