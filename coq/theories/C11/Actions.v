(** C11 -- all actions present the same data.

    Every action of a DataFrame is modelled the way the method really builds its query, on top of
    C01's compiled state [df] (Model/Chain.v):

      collect          evaluate the chain
      limit n          C01's [step] with [OLimit n]           (through the @operation wrapper)
      head(n)          limit (n or 1) ; collect ; n is None -> seq_get(collected, 0)
      first()          head()
      isEmpty()        select(lit(True)) (through the wrapper) ; head() ; not bool(...)
      count()          _convert_leaf_to_cte ; replace the select list by count( * ) ; collect()[0][0]
      show(n)          _convert_leaf_to_cte ; limit n ; collect ; header = Row._unique_field_names
                       of the first row (only when there is one) ; PrettyTable refuses duplicates
      toPandas/toArrow the same statement through another fetch path

    What is GENERATED from /repo (translate/c11_facts.py) enters through the record [afacts]; the
    theorems are parametric in it and need the decidable/first-order side conditions [head_ok],
    [count_ok], [show_ok], [isempty_ok], [ren_spec], discharged in coq/props/C11.v. *)
From SF Require Export Model.Chain Model.ChainProof C11.Names.
Open Scope Z_scope.

Record afacts := mkA {
  a_head_arg : option Z -> Z;          (* head: what is passed to limit(...)              [n or 1]        *)
  a_head_scalar : option Z -> bool;    (* head: is seq_get(collected, k) returned?        [n is None]     *)
  a_head_index : Z;                    (* head: that k                                    [0]             *)
  a_first_arg : option Z;              (* first: the argument it gives to head            [None]          *)
  a_count_wraps : bool;                (* count: _convert_leaf_to_cte() first                             *)
  a_count_append : bool;               (* count: append= of .select("count( * )", ...)                     *)
  a_count_star : bool;                 (* count: the selected text is count( * )                           *)
  a_count_pick : nat * nat;            (* count: collect()[i][j]                                          *)
  a_isempty_item : expr * string;      (* isEmpty: what it selects                        [lit(True)]     *)
  a_isempty_head_arg : option Z;       (* isEmpty: the argument it gives to head          [None]          *)
  a_isempty_negates : bool;            (* isEmpty: not bool(...)                                          *)
  a_show_default : Z;                  (* show: default n                                                 *)
  a_show_wraps : bool;                 (* show: _convert_leaf_to_cte() first                              *)
  a_show_arg : Z -> Z;                 (* show: what is passed to limit(...)              [n]             *)
  a_show_header_needs_row : bool;      (* show: field names are set only under `if row := seq_get(result, 0)` *)
  a_rename : list string -> nat -> string -> string }.   (* Row._unique_field_names loop body *)

Inductive hres := HRow (r : option row) | HList (l : list row).
Inductive sres := SRaise | STable (names : list string) (body : list row).

(** Python's [bool(x)] for None / a Row (tuple) / a list *)
Definition truthy (h : hres) : bool :=
  match h with
  | HRow None => false
  | HRow (Some r) => negb (Nat.eqb (List.length r) 0)
  | HList l => negb (Nat.eqb (List.length l) 0)
  end.

(** [SELECT count( * ) FROM fr WHERE ws ... LIMIT l]: one row, unless the LIMIT is 0.  (DISTINCT and
    ORDER BY of the block act on that single row.) *)
Definition eval_count_block (b : block) (fr : frame) : list row :=
  let n := List.length (filter (all_hold (cols fr) (b_where b)) (rows fr)) in
  match b_limit b with Some O => [] | _ => [[VInt (Z.of_nat n)]] end.

Section Actions.
  Variable c : cfg.
  Variable a : afacts.

  Definition collect (d : df) (input : frame) : list row := rows (eval_df d input).
  Definition columns (d : df) : list string := out_cols (b_sel (cur d)).
  Definition limit_df (n : nat) (d : df) : df := step c d (OLimit n).

  Definition zopt (n : option nat) : option Z := option_map Z.of_nat n.

  Definition head_model (n : option nat) (d : df) (input : frame) : hres :=
    let collected := collect (limit_df (Z.to_nat (a_head_arg a (zopt n))) d) input in
    if a_head_scalar a (zopt n) then HRow (nth_error collected (Z.to_nat (a_head_index a)))
    else HList collected.

  Definition first_model (d : df) (input : frame) : hres :=
    head_model (option_map Z.to_nat (a_first_arg a)) d input.

  Definition isempty_model (d : df) (input : frame) : bool :=
    let d1 := step c d (OSelect [a_isempty_item a]) in
    let t := truthy (head_model (option_map Z.to_nat (a_isempty_head_arg a)) d1 input) in
    if a_isempty_negates a then negb t else t.

  (** None = the call raises (SQL error for a non-aggregated select list / IndexError / not an int) *)
  Definition count_model (d : df) (input : frame) : option Z :=
    if a_count_append a || negb (a_count_star a) then None
    else
      let d' := if a_count_wraps a then wrap d else d in
      match nth_error (eval_count_block (cur d') (source d' input)) (fst (a_count_pick a)) with
      | Some r => match nth_error r (snd (a_count_pick a)) with Some (VInt z) => Some z | _ => None end
      | None => None
      end.

  Definition show_model (n : nat) (d : df) (input : frame) : sres :=
    let d' := if a_show_wraps a then wrap d else d in
    let result := collect (limit_df (Z.to_nat (a_show_arg a (Z.of_nat n))) d') input in
    let names := ufn (a_rename a) (columns d') in
    match result with
    | [] => if a_show_header_needs_row a then STable [] [] else
              if nodupb names then STable names [] else SRaise
    | _ :: _ => if nodupb names then STable names result else SRaise
    end.

  (** * What the property demands (PySpark's meaning), as functions of what collect() returns *)
  Definition head_spec (n : option nat) (l : list row) : hres :=
    match n with None => HRow (hd_error l) | Some k => HList (firstn k l) end.
  Definition show_spec (n : nat) (names : list string) (l : list row) : sres := STable names (firstn n l).

  (** * Side conditions on the generated facts *)
  Definition head_ok : Prop :=
    a_head_arg a None = 1 /\ (forall k, 0 <= k -> a_head_arg a (Some k) = k) /\
    a_head_scalar a None = true /\ (forall k, a_head_scalar a (Some k) = false) /\ a_head_index a = 0.
  Definition first_ok : Prop := a_first_arg a = None.
  Definition count_ok : bool :=
    a_count_wraps a && negb (a_count_append a) && a_count_star a &&
    Nat.eqb (fst (a_count_pick a)) 0 && Nat.eqb (snd (a_count_pick a)) 0.
  Definition isempty_ok : bool :=
    a_isempty_negates a && match a_isempty_head_arg a with None => true | Some _ => false end.
  Definition show_ok : Prop := forall z, a_show_arg a z = z.

  (** ** count: no invariant needed, the wrap freezes whatever the open block is *)
  Theorem count_correct d input :
    count_ok = true -> count_model d input = Some (Z.of_nat (List.length (collect d input))).
  Proof.
    unfold count_ok. intro H.
    apply andb_true_iff in H. destruct H as [H Hs]. apply andb_true_iff in H. destruct H as [H Hf].
    apply andb_true_iff in H. destruct H as [H Hstar]. apply andb_true_iff in H. destruct H as [Hw Happ].
    apply negb_true_iff in Happ. apply Nat.eqb_eq in Hf, Hs.
    unfold count_model. rewrite Hw, Happ, Hstar, Hf, Hs. simpl.
    rewrite source_snoc. unfold collect.
    rewrite filter_true by reflexivity. reflexivity.
  Qed.

  Section WithC01.
    Hypothesis Hcfg : cfg_ok c = true.
    Hypothesis Hlim : limit_ok c.

    (** ** limit(n).collect() is a prefix of collect() -- C01's step theorem for OLimit *)
    Theorem limit_correct d ics input n :
      cols input = ics -> wf_frame input -> InvR c d ics ->
      collect (limit_df n d) input = firstn n (collect d input) /\ InvR c (limit_df n d) ics.
    Proof.
      intros Hics Hwf HI.
      destruct (step_correct c Hcfg Hlim d ics input (OLimit n) Hics Hwf HI eq_refl) as [He HI'].
      split; [|exact HI']. unfold collect, limit_df. rewrite He. reflexivity.
    Qed.

    (** ** head / head(n) / first *)
    Theorem head_correct d ics input n :
      head_ok -> cols input = ics -> wf_frame input -> InvR c d ics ->
      head_model n d input = head_spec n (collect d input).
    Proof.
      intros (H1 & H2 & H3 & H4 & H5) Hics Hwf HI.
      unfold head_model. destruct n as [k|]; simpl.
      - rewrite H4. rewrite H2 by lia.
        rewrite Nat2Z.id. f_equal.
        apply (limit_correct d ics input k Hics Hwf HI).
      - rewrite H3, H1, H5. change (Z.to_nat 1) with 1%nat. change (Z.to_nat 0) with 0%nat. f_equal.
        rewrite (proj1 (limit_correct d ics input 1%nat Hics Hwf HI)).
        destruct (collect d input); reflexivity.
    Qed.

    Corollary first_correct d ics input :
      head_ok -> first_ok -> cols input = ics -> wf_frame input -> InvR c d ics ->
      first_model d input = HRow (hd_error (collect d input)).
    Proof.
      intros Hh Hf Hics Hwf HI. unfold first_model. rewrite Hf. simpl.
      apply (head_correct d ics input None Hh Hics Hwf HI).
    Qed.

    (** head(0): the generated [n or 1] turns 0 into 1 *)
    Lemma head_zero_wrong d ics input :
      a_head_arg a (Some 0) = 1 -> a_head_scalar a (Some 0) = false ->
      cols input = ics -> wf_frame input -> InvR c d ics -> collect d input <> [] ->
      head_model (Some O) d input <> head_spec (Some O) (collect d input).
    Proof.
      intros H1 H2 Hics Hwf HI Hne. unfold head_model. cbn [zopt option_map Z.of_nat]. rewrite H1, H2.
      change (Z.to_nat 1) with 1%nat. unfold head_spec. cbn [firstn].
      rewrite (proj1 (limit_correct d ics input 1%nat Hics Hwf HI)).
      destruct (collect d input); [congruence | discriminate].
    Qed.

    (** ** isEmpty *)
    Theorem isempty_correct d ics input :
      head_ok -> isempty_ok = true -> cols input = ics -> wf_frame input -> InvR c d ics ->
      isempty_model d input = Nat.eqb (List.length (collect d input)) 0.
    Proof.
      intros Hh Hi Hics Hwf HI. unfold isempty_ok in Hi.
      apply andb_true_iff in Hi. destruct Hi as [Hneg Harg].
      destruct (a_isempty_head_arg a) eqn:Ea; [discriminate|].
      unfold isempty_model. rewrite Hneg, Ea. cbn [option_map].
      destruct (a_isempty_item a) as [e nm] eqn:Eit.
      assert (Hop : op_ok c d ics (OSelect [(e, nm)]) = true) by reflexivity.
      destruct (step_correct c Hcfg Hlim d ics input (OSelect [(e, nm)]) Hics Hwf HI Hop) as [He HI'].
      rewrite (head_correct _ ics input None Hh Hics Hwf HI').
      unfold head_spec, collect. rewrite He. cbn [spec_step rows].
      generalize (rows (eval_df d input)) as l. intros [|r l]; reflexivity.
    Qed.

    (** ** show *)
    Hypothesis Hid : forall fs, NoDup fs -> ufn (a_rename a) fs = fs.

    Lemma invr_wrap d ics : InvR c d ics -> InvR c (wrap d) ics.
    Proof.
      intros [HI Hr]. split; [|exact Hr].
      exact (inv_wrap d ics (Chain.last d) HI).
    Qed.

    Theorem show_correct d ics input n :
      show_ok -> cols input = ics -> wf_frame input -> InvR c d ics ->
      show_model n d input =
        match firstn n (collect d input) with
        | [] => if a_show_header_needs_row a then STable [] [] else STable (columns d) []
        | l => STable (columns d) l
        end.
    Proof.
      intros Hs Hics Hwf HI.
      assert (Hnd : NoDup (columns d)) by (destruct HI as [(_&_&_&_&Hn) _]; exact Hn).
      assert (E : forall d', InvR c d' ics -> columns d' = columns d -> collect d' input = collect d input ->
                  (let result := collect (limit_df (Z.to_nat (a_show_arg a (Z.of_nat n))) d') input in
                   let names := ufn (a_rename a) (columns d') in
                   match result with
                   | [] => if a_show_header_needs_row a then STable [] [] else
                           if nodupb names then STable names [] else SRaise
                   | _ :: _ => if nodupb names then STable names result else SRaise
                   end) =
                  match firstn n (collect d input) with
                  | [] => if a_show_header_needs_row a then STable [] [] else STable (columns d) []
                  | l => STable (columns d) l
                  end).
      { intros d' HI' Hc He. cbv zeta. rewrite Hs, Nat2Z.id.
        rewrite (proj1 (limit_correct d' ics input n Hics Hwf HI')), He, Hc.
        rewrite (Hid _ Hnd).
        assert (Hb : nodupb (columns d) = true) by (apply nodupb_complete; exact Hnd).
        rewrite Hb. destruct (firstn n (collect d input)); reflexivity. }
      unfold show_model. destruct (a_show_wraps a).
      - apply E.
        + apply invr_wrap; exact HI.
        + unfold columns, wrap; simpl. apply out_cols_passthrough.
        + unfold collect. rewrite wrap_eval; [reflexivity | exact Hnd].
      - apply E; auto.
    Qed.

    (** the form the property uses, on the domain where something is printed *)
    Corollary show_rows d ics input n :
      show_ok -> cols input = ics -> wf_frame input -> InvR c d ics ->
      negb (Nat.eqb (List.length (firstn n (collect d input))) 0) = true ->
      show_model n d input = show_spec n (columns d) (collect d input).
    Proof.
      intros Hs Hics Hwf HI Hne. rewrite (show_correct d ics input n Hs Hics Hwf HI).
      unfold show_spec. destruct (firstn n (collect d input)); [discriminate | reflexivity].
    Qed.

    (** whenever a header is printed it has no duplicates and keeps the columns' positions *)
    Theorem show_names_nodup n d input names body :
      show_model n d input = STable names body -> NoDup names.
    Proof.
      unfold show_model.
      destruct (collect _ _); [destruct (a_show_header_needs_row a)|];
        try (destruct (nodupb _) eqn:E; [|discriminate]);
        intro H; inversion H; subst; try constructor; apply nodupb_sound; exact E.
    Qed.

    (** ** every program in C01's domain leads to a state satisfying C01's invariant *)
    Lemma compile_inv ops : forall d ics,
      InvR c d ics -> ops_ok c d ics ops = true -> InvR c (compile c ops d) ics.
    Proof.
      induction ops as [|o ops IH]; intros d ics HI Hok; simpl; [exact HI|].
      simpl in Hok. apply andb_true_iff in Hok. destruct Hok as [Ho Hops].
      assert (Hwf : wf_frame (mkFrame ics [])) by (intros r []).
      destruct (step_correct c Hcfg Hlim d ics (mkFrame ics []) o eq_refl Hwf HI Ho) as [_ HI'].
      apply IH; assumption.
    Qed.

    (** ** all actions of one DataFrame, together *)
    (** with the header taken from the statement's columns, show prints names also when it prints no row *)
    Corollary show_all d ics input n :
      show_ok -> a_show_header_needs_row a = false -> cols input = ics -> wf_frame input -> InvR c d ics ->
      show_model n d input = show_spec n (columns d) (collect d input).
    Proof.
      intros Hs Hh Hics Hwf HI. rewrite (show_correct d ics input n Hs Hics Hwf HI), Hh.
      unfold show_spec. destruct (firstn n (collect d input)); reflexivity.
    Qed.

    Definition agree_partial (d : df) (input : frame) (n : nat) : Prop :=
      let l := collect d input in
      count_model d input = Some (Z.of_nat (List.length l)) /\
      isempty_model d input = Nat.eqb (List.length l) 0 /\
      head_model None d input = HRow (hd_error l) /\
      first_model d input = HRow (hd_error l) /\
      head_model (Some n) d input = HList (firstn n l) /\
      collect (limit_df n d) input = firstn n l /\
      show_model n d input = STable (columns d) (firstn n l).

    Theorem all_actions ops input n :
      head_ok -> first_ok -> count_ok = true -> isempty_ok = true -> show_ok -> a_show_header_needs_row a = false ->
      wf_frame input -> NoDup (cols input) ->
      ops_ok c (init_df (cols input)) (cols input) ops = true ->
      agree_partial (compile c ops (init_df (cols input))) input n.
    Proof.
      intros Hh Hf Hc Hi Hs Hhd Hwf Hnd Hok.
      pose proof (compile_inv ops _ _ (init_inv c (cols input) Hnd) Hok) as HI.
      set (d := compile c ops (init_df (cols input))) in *.
      unfold agree_partial. cbv zeta.
      split; [apply count_correct; exact Hc|].
      split; [apply (isempty_correct d (cols input)); auto|].
      split; [apply (head_correct d (cols input) input None); auto|].
      split; [apply (first_correct d (cols input)); auto|].
      split; [apply (head_correct d (cols input) input (Some n)); auto|].
      split; [apply (limit_correct d (cols input)); auto|].
      apply (show_all d (cols input)); auto.
    Qed.

    (** * Every program, also outside C01's domain (select lists that repeat a name, any ORDER BY keys):
        limit -- and with it head(n) and show(n) -- is written into the open block without a wrap, and
        [body_limit] holds for every block; count freezes whatever the block is.  What is NOT covered here is
        isEmpty (its select(lit) may be written into a block the invariant says nothing about). *)
    Definition limit_in_place_ok : bool :=
      forallb (fun l => negb (wrap_needed c l (new_kind c (OLimit 0) l))) (reach c) &&
      forallb (fun n => negb (opk_eqb (kind_of c n) INIT)) all_names.

    (** reachable: a created DataFrame (INIT, pass-through over duplicate-free input columns) or any state
        whose tag is not INIT *)
    Definition Started (d : df) (ics : list string) : Prop :=
      In (Chain.last d) (reach c) /\ (Chain.last d = INIT -> d = init_df ics /\ NoDup ics).

    Lemma new_kind_reach o l : In l (reach c) -> In (new_kind c o l) (reach c).
    Proof.
      intro Hl. unfold new_kind. destruct (opk_eqb (kind_of c (name_of o)) NO_OP); [exact Hl|].
      apply reach_kind.
    Qed.

    Lemma pre_init_last d : In (Chain.last d) (reach c) ->
      In (Chain.last (pre_init c d)) (reach c) /\ Chain.last (pre_init c d) <> INIT.
    Proof.
      intro Hr. unfold pre_init. destruct (opk_eqb (Chain.last d) INIT) eqn:E.
      - simpl. split; [unfold reach; simpl; tauto | discriminate].
      - split; [exact Hr|]. intro H. rewrite H in E. discriminate.
    Qed.

    Lemma started_step d ics o : limit_in_place_ok = true -> Started d ics -> Started (step c d o) ics.
    Proof.
      intros Hok [Hr _]. destruct (pre_init_last d Hr) as [Hr0 Hne].
      unfold Started, step; cbn [Chain.last]. split; [apply new_kind_reach; exact Hr0|].
      intro H. exfalso. unfold new_kind in H.
      destruct (opk_eqb (kind_of c (name_of o)) NO_OP); [exact (Hne H)|].
      unfold limit_in_place_ok in Hok. apply andb_true_iff in Hok. destruct Hok as [_ Hk].
      rewrite forallb_forall in Hk.
      assert (Hin : In (name_of o) all_names) by (destruct o; simpl; tauto).
      specialize (Hk _ Hin). rewrite H in Hk. discriminate.
    Qed.

    Lemma started_compile ops : forall d ics, limit_in_place_ok = true -> Started d ics -> Started (compile c ops d) ics.
    Proof.
      induction ops as [|o ops IH]; intros d ics Hok Hs; simpl; [exact Hs|].
      apply IH; [exact Hok | apply started_step; assumption].
    Qed.

    Lemma started_init ics : NoDup ics -> Started (init_df ics) ics.
    Proof. intro H. split; [unfold reach; simpl; tauto | intros _; split; [reflexivity | exact H]]. Qed.

    Theorem limit_any d ics input n :
      limit_in_place_ok = true -> Started d ics -> cols input = ics -> wf_frame input ->
      collect (limit_df n d) input = firstn n (collect d input) /\ columns (limit_df n d) = columns d.
    Proof.
      intros Hok [Hr Hinit] Hics Hwf.
      assert (H0 : eval_df (pre_init c d) input = eval_df d input /\ columns (pre_init c d) = columns d).
      { unfold pre_init. destruct (opk_eqb (Chain.last d) INIT) eqn:E; [|split; reflexivity].
        destruct (Chain.last d) eqn:El; try discriminate.
        destruct (Hinit eq_refl) as [-> Hnd].
        destruct (init_wraps c); [|split; reflexivity].
        split.
        - transitivity (eval_df (wrap (init_df ics)) input); [reflexivity|].
          apply wrap_eval. simpl. rewrite out_cols_passthrough. exact Hnd.
        - unfold columns, wrap, set_last; simpl. rewrite !out_cols_passthrough. reflexivity. }
      destruct H0 as [He0 Hc0].
      destruct (pre_init_last d Hr) as [Hr0 _].
      unfold limit_df, step. set (d0 := pre_init c d) in *.
      assert (Hnw : pre_wrap c (OLimit n) d0 = d0).
      { unfold pre_wrap. unfold limit_in_place_ok in Hok. apply andb_true_iff in Hok. destruct Hok as [Hw _].
        rewrite forallb_forall in Hw. specialize (Hw _ Hr0). apply negb_true_iff in Hw.
        change (new_kind c (OLimit n) (Chain.last d0)) with (new_kind c (OLimit 0) (Chain.last d0)).
        rewrite Hw. reflexivity. }
      rewrite Hnw. split.
      - unfold collect.
        change (eval_df {| done := done d0; cur := body c (OLimit n) (cur d0); Chain.last := new_kind c (OLimit n) (Chain.last d0) |} input)
          with (eval_block (body c (OLimit n) (cur d0)) (source d0 input)).
        rewrite (body_limit c Hlim). change (eval_block (cur d0) (source d0 input)) with (eval_df d0 input).
        rewrite He0. reflexivity.
      - transitivity (columns d0); [reflexivity | exact Hc0].
    Qed.

    Theorem head_any d ics input n :
      head_ok -> limit_in_place_ok = true -> Started d ics -> cols input = ics -> wf_frame input ->
      head_model n d input = head_spec n (collect d input).
    Proof.
      intros (H1 & H2 & H3 & H4 & H5) Hok Hs Hics Hwf.
      unfold head_model. destruct n as [k|]; simpl.
      - rewrite H4. rewrite H2 by lia. rewrite Nat2Z.id. f_equal.
        apply (limit_any d ics input k Hok Hs Hics Hwf).
      - rewrite H3, H1, H5. change (Z.to_nat 1) with 1%nat. change (Z.to_nat 0) with 0%nat. f_equal.
        rewrite (proj1 (limit_any d ics input 1%nat Hok Hs Hics Hwf)).
        destruct (collect d input); reflexivity.
    Qed.

    (** show on every state, given a header function that never repeats a name: the first n rows of collect()
        under the (possibly index-suffixed) column names *)
    Theorem show_any d ics input n :
      show_ok -> a_show_wraps a = false -> a_show_header_needs_row a = false ->
      (forall fs, NoDup (ufn (a_rename a) fs)) ->
      limit_in_place_ok = true -> Started d ics -> cols input = ics -> wf_frame input ->
      show_model n d input = STable (ufn (a_rename a) (columns d)) (firstn n (collect d input)).
    Proof.
      intros Hs Hw Hh Hnd Hok Hst Hics Hwf.
      unfold show_model. rewrite Hw, Hh, Hs, Nat2Z.id.
      rewrite (proj1 (limit_any d ics input n Hok Hst Hics Hwf)).
      rewrite (nodupb_complete _ (Hnd (columns d))).
      destruct (firstn n (collect d input)); reflexivity.
    Qed.

    Definition agree_any (d : df) (input : frame) (n : nat) : Prop :=
      let l := collect d input in
      count_model d input = Some (Z.of_nat (List.length l)) /\
      head_model None d input = HRow (hd_error l) /\
      first_model d input = HRow (hd_error l) /\
      head_model (Some n) d input = HList (firstn n l) /\
      collect (limit_df n d) input = firstn n l /\
      show_model n d input = STable (ufn (a_rename a) (columns d)) (firstn n l) /\
      NoDup (ufn (a_rename a) (columns d)) /\
      Forall2 (fun f o => o = f \/ exists k, o = suffixed f k) (columns d) (ufn (a_rename a) (columns d)).

    Theorem all_actions_any ops input n :
      head_ok -> first_ok -> count_ok = true -> show_ok ->
      a_show_wraps a = false -> a_show_header_needs_row a = false -> ren_fresh_spec (a_rename a) ->
      limit_in_place_ok = true ->
      wf_frame input -> NoDup (cols input) ->
      agree_any (compile c ops (init_df (cols input))) input n.
    Proof.
      intros Hh Hf Hc Hs Hw Hhd Hren Hok Hwf Hnd.
      pose proof (started_compile ops _ _ Hok (started_init _ Hnd)) as Hst.
      set (d := compile c ops (init_df (cols input))) in *.
      unfold agree_any. cbv zeta.
      split; [apply count_correct; exact Hc|].
      split; [apply (head_any d (cols input) input None); auto|].
      split; [unfold first_model; rewrite Hf; apply (head_any d (cols input) input None); auto|].
      split; [apply (head_any d (cols input) input (Some n)); auto|].
      split; [apply (limit_any d (cols input)); auto|].
      split; [apply (show_any d (cols input)); auto; intro fs; apply ufn_nodup_total; exact Hren|].
      split; [apply ufn_nodup_total; exact Hren | apply ufn_shape_f; exact Hren].
    Qed.
  End WithC01.
End Actions.

(** * The same statement through another fetch path (toPandas / toArrow) and action independence

    How a statement text is rendered from a DataFrame ([render]) and what the engine answers
    ([exec]) are environment; they are Section variables, so the theorems hold for every renderer and
    every engine.  The GENERATED part is the table [path_of]: which (optimize, quote_identifiers,
    normalisation) arguments each action passes on the way to the connection, and in which order
    toArrow executes and reads the session's last result. *)
Inductive action := ACollect | AToPandas | AToArrow.
Record spath := mkPath { p_optimize : bool; p_quote : bool; p_skip_normalization : bool }.
Definition spath_eqb (x y : spath) : bool :=
  Bool.eqb (p_optimize x) (p_optimize y) && Bool.eqb (p_quote x) (p_quote y)
  && Bool.eqb (p_skip_normalization x) (p_skip_normalization y).
Lemma spath_eqb_eq x y : spath_eqb x y = true -> x = y.
Proof.
  destruct x, y; unfold spath_eqb; simpl. intro H.
  repeat (apply andb_true_iff in H; destruct H as [H ?]).
  repeat match goal with Hx : Bool.eqb _ _ = true |- _ => apply Bool.eqb_prop in Hx end.
  congruence.
Qed.

Section Fetch.
  Context {text result : Type}.
  Variable render : spath -> df -> text.
  Variable exec : text -> frame -> result.
  Variable path_of : action -> spath.
  (** session state an action can see: the last executed result *)
  Variable arrow_executes_before_reading : bool.

  Definition paths_ok : bool := forallb (fun k => spath_eqb (path_of k) (path_of ACollect)) [AToPandas; AToArrow].

  (** result the action's fetch path converts; [last] is session._last_result before the call *)
  Definition fetched (k : action) (d : df) (input : frame) (last : option result) : option result :=
    let now := exec (render (path_of k) d) input in
    match k with
    | AToArrow => if arrow_executes_before_reading then Some now else last
    | _ => Some now
    end.

  Theorem same_statement k d :
    paths_ok = true -> render (path_of k) d = render (path_of ACollect) d.
  Proof.
    unfold paths_ok. simpl. intro H.
    repeat (apply andb_true_iff in H; destruct H as [? H]).
    destruct k; [reflexivity | |]; f_equal; apply spath_eqb_eq; assumption.
  Qed.

  (** every fetch path converts the result of the statement collect() runs, whatever ran before *)
  Theorem fetched_same k d input last :
    paths_ok = true -> arrow_executes_before_reading = true ->
    fetched k d input last = Some (exec (render (path_of ACollect) d) input).
  Proof.
    intros Hp Ha. unfold fetched. rewrite (same_statement k d Hp), Ha. destruct k; reflexivity.
  Qed.
End Fetch.

(** * Actions do not alter each other.
    An action is a function of the receiver's compiled state and the input; the receiver is not written
    (GENERATED write summary [writes], one entry per action method: attributes of self it assigns).  A run
    of actions is the list of their results; with an empty write summary every action sees the state [d]
    it would see alone. *)
Section Independence.
  Context {R : Type}.
  Variable writes : list (string * list string).
  Definition no_self_writes : bool := forallb (fun p => match snd p with [] => true | _ => false end) writes.

  (** state after an action that writes attributes [ws]: unchanged iff ws is empty *)
  Variable clobber : list string -> df -> df.
  Hypothesis clobber_nil : forall d, clobber [] d = d.

  Fixpoint run (acts : list (string * (df -> R))) (d : df) : list R :=
    match acts with
    | [] => []
    | (nm, f) :: rest =>
        let ws := match find (fun p => String.eqb (fst p) nm) writes with Some p => snd p | None => [] end in
        f d :: run rest (clobber ws d)
    end.

  Theorem actions_independent acts d :
    no_self_writes = true -> run acts d = map (fun p => snd p d) acts.
  Proof.
    intro H. unfold no_self_writes in H. rewrite forallb_forall in H.
    revert d; induction acts as [|[nm f] rest IH]; intro d; simpl; [reflexivity|].
    f_equal.
    destruct (find _ writes) as [p|] eqn:Ef.
    - apply find_some in Ef. destruct Ef as [Hin _]. specialize (H p Hin).
      destruct (snd p); [|discriminate]. rewrite clobber_nil. apply IH.
    - rewrite clobber_nil. apply IH.
  Qed.
End Independence.
