(** C17: executable side of the emulation models, used by the correspondence (tie T3) of checks/c17.py.
    [check F (input, impl, spark)] evaluates, for one call,
       the DuckDB-side model under the regenerated facts F    against the value the real DuckDBSession returned,
       the Spark-side definition                              against the value recorded from PySpark 3.5.9,
    and says whether the input is in the domain of the emulation's theorem and whether the two models agree.
    The primitives that the theorems keep abstract (sort, intersection, duplicate removal) get concrete instances
    here, each proved to satisfy the hypotheses the theorems assume (so the premises are satisfiable). *)
From Coq Require Import ZArith List Bool Lia ZifyBool Permutation Sorted.
From Coq Require Import String.
From SF Require Import C17.Emul C17.Emul2.
Import ListNotations.
Open Scope Z_scope.

(** concrete instances of the abstract primitives *)
Fixpoint ins (x : Z) (l : list Z) : list Z :=
  match l with [] => [x] | y :: t => if x <=? y then x :: y :: t else y :: ins x t end.
Definition isort (l : list Z) : list Z := fold_right ins [] l.
Lemma ins_perm : forall x l, Permutation (x :: l) (ins x l).
Proof.
  intros x l. induction l as [|y t IH]; simpl; [reflexivity|].
  destruct (x <=? y); [reflexivity|]. rewrite perm_swap. constructor. exact IH.
Qed.
Lemma isort_perm : forall l, Permutation l (isort l).
Proof. induction l as [|x t IH]; simpl; [constructor|]. rewrite <- ins_perm. constructor. exact IH. Qed.
Lemma ins_sorted : forall x l, Sorted Z.le l -> Sorted Z.le (ins x l).
Proof.
  intros x l. induction l as [|y t IH]; intro S; simpl.
  - repeat constructor.
  - destruct (x <=? y) eqn:E.
    + constructor; [exact S | constructor; lia].
    + inversion S as [|? ? S' H]; subst. constructor; [apply IH; exact S'|].
      destruct t as [|z t']; simpl.
      * constructor; lia.
      * destruct (x <=? z); constructor; [lia | inversion H; subst; assumption].
Qed.
Lemma isort_sorted : forall l, Sorted Z.le (isort l).
Proof. induction l as [|x t IH]; simpl; [constructor | apply ins_sorted; exact IH]. Qed.

Definition inter_filter (a b : list Z) : list Z := filter (fun x => existsb (Z.eqb x) b) a.
Lemma inter_filter_spec : forall a b x, In x (inter_filter a b) <-> In x a /\ In x b.
Proof.
  intros a b x. unfold inter_filter. rewrite filter_In. split; intros [Ha Hb]; split; try exact Ha.
  - apply existsb_exists in Hb as [y [Hy E]]. assert (x = y) by lia. subst. exact Hy.
  - apply existsb_exists. exists x. split; [exact Hb | lia].
Qed.
Definition dist_nodup (l : list Z) : list Z := nodup Z.eq_dec l.

(** the premises of array_min_ok / array_max_ok / arrays_overlap_ok / array_union_ok are satisfiable *)
Example minmax_premises : (forall l, Permutation l (isort l)) /\ (forall l, Sorted Z.le (isort l)).
Proof. split; [exact isort_perm | exact isort_sorted]. Qed.
Example overlap_premise : forall a b x, In x (inter_filter a b) <-> In x a /\ In x b.
Proof. exact inter_filter_spec. Qed.
Example union_premises : (forall l, NoDup (dist_nodup l)) /\ (forall l x, In x (dist_nodup l) <-> In x l).
Proof. split; [intro l; apply NoDup_nodup | intros l x; apply nodup_In]. Qed.

(** values *)
Inductive rv :=
| RNull | RInt (z : Z) | RBool (b : bool) | RList (l : list Z) | RBag (l : list Z)
| ROList (l : list (option Z)) | RFv (f : fv) | RErr.

Fixpoint list_eqb {A} (eqb : A -> A -> bool) (a b : list A) : bool :=
  match a, b with [], [] => true | x :: a', y :: b' => eqb x y && list_eqb eqb a' b' | _, _ => false end.
Definition oz_eqb (a b : option Z) : bool :=
  match a, b with None, None => true | Some x, Some y => x =? y | _, _ => false end.
Definition fv_eqb (a b : fv) : bool :=
  match a, b with FNaN, FNaN => true | FFin x, FFin y => x =? y | _, _ => false end.
Definition rv_eqb (a b : rv) : bool :=
  match a, b with
  | RNull, RNull => true
  | RInt x, RInt y => x =? y
  | RBool x, RBool y => Bool.eqb x y
  | RList x, RList y => list_eqb Z.eqb x y
  | RBag x, RBag y | RBag x, RList y | RList x, RBag y => list_eqb Z.eqb (isort x) (isort y)
  | ROList x, ROList y => list_eqb oz_eqb x y
  | RFv x, RFv y => fv_eqb x y
  | _, _ => false
  end.
Definition of_opt (o : option Z) : rv := match o with Some z => RInt z | None => RNull end.
Definition of_olist (k : list Z -> rv) (o : option (list Z)) : rv := match o with Some l => k l | None => RNull end.
Definition of_dv (o : dv) : rv := match o with Some f => RFv f | None => RNull end.

(** inputs of the modelled calls *)
Inductive ein :=
| ISlice (l : list Z) (s n : Z)
| IElementAt (l : list Z) (e : iexp)
| ITryElementAt (l : list Z) (e : iexp)
| IGetItem (l : list Z) (e : iexp)
| IArrayMin (l : list Z)
| IArrayMax (l : list Z)
| IArrayPosition (l : option (list Z)) (v : Z)
| IFactorial (n : Z)
| IRint (n d : Z)
| IDayOfWeek (day : Z)
| IOverlay (s r : list Z) (pos len : Z)
| IArraysOverlap (a b : list Z)
| IArrayUnion (a b : list Z)
| IArrayRemove (l : list (option Z)) (v : Z)
| INanvl (a b : dv)
| ISequence (a b : Z) (st : option Z)
| IDateAdd (d n : Z)
| IDateSub (d n : Z)
| ILevenshtein (dist : option Z) (thr : Z)
| IUnixMillis (us : Z)
| IArrayUnionN (a b : option (list Z))
| IOverlayN (s r : ostr) (pos len : Z)
| IArrayAppend (l : option (list Z)) (v : Z)
| IConcat (parts : list ostr)
| ILeft (s : list Z) (n : Z)
| IRight (s : list Z) (n : Z)
| ISubstr (s : list Z) (p n : Z)
| ISoundex (s : list Z).

Record facts := mkFacts {
  f_slice : slice_cfg; f_element_at : shift_cfg; f_try_element_at : shift_cfg; f_getitem : shift_cfg;
  f_array_min_idx : Z; f_array_max_idx : Z; f_pos : pos_cfg; f_fact : fact_cfg; f_rint : rint_cfg; f_dow : Z;
  f_overlay : overlay_cfg; f_overlap : overlap_cfg; f_union : union_cfg; f_remove : cmpop; f_nanvl : nanvl_cfg;
  f_seq_default : seq_default; f_date_add : dshift_cfg; f_date_sub : dshift_cfg; f_lev : lev_cfg; f_unix_millis : millis_cfg;
  f_slice_rebase : slice_rebase; f_fact_guard : option (Z * Z); f_union_guard : bool; f_overlay_glue : glue;
  f_concat_glue : glue; f_append_guard : bool; f_left_floor : option Z; f_right_floor : option Z; f_substr_remap : option (Z * Z); f_soundex : soundex_cfg }.

Definition duck_of (F : facts) (i : ein) : rv :=
  match i with
  | ISlice l s n => RList (duck_slice2 (f_slice_rebase F) (f_slice F) l s n)
  | IElementAt l e => of_opt (duck_element_at (f_element_at F) l e)
  | ITryElementAt l e => of_opt (duck_element_at (f_try_element_at F) l e)
  | IGetItem l e => of_opt (duck_getItem (f_getitem F) (f_element_at F) l e)
  | IArrayMin l => of_opt (duck_array_extreme isort (f_element_at F) (f_array_min_idx F) l)
  | IArrayMax l => of_opt (duck_array_extreme isort (f_element_at F) (f_array_max_idx F) l)
  | IArrayPosition l v => of_opt (duck_array_position (f_pos F) l v)
  | IFactorial n => of_opt (duck_factorial2 (f_fact_guard F) (f_fact F) n)
  | IRint n d => of_opt (duck_rint (f_rint F) n d)
  | IDayOfWeek day => RInt (duck_dayofweek (f_dow F) day)
  | IOverlay s r pos len => RList (duck_overlay (f_overlay F) s r pos len)
  | IArraysOverlap a b => RBool (duck_arrays_overlap inter_filter (f_overlap F) a b)
  | IArrayUnion a b => RBag (duck_array_union dist_nodup (f_union F) a b)
  | IArrayRemove l v => ROList (duck_array_remove (f_remove F) l v)
  | INanvl a b => of_dv (duck_nanvl (f_nanvl F) a b)
  | ISequence a b st => RList (duck_sequence (f_seq_default F) a b st)
  | IDateAdd d n => of_opt (dshift (f_date_add F) (f_date_sub F) 2 true d n)
  | IDateSub d n => of_opt (dshift (f_date_add F) (f_date_sub F) 2 false d n)
  | ILevenshtein dist thr => of_opt (duck_levenshtein (f_lev F) dist thr)
  | IUnixMillis us => RInt (duck_unix_millis (f_unix_millis F) us)
  | IArrayUnionN a b => of_olist RBag (duck_array_union2 dist_nodup (f_union_guard F) (f_union F) a b)
  | IOverlayN s r pos len => of_olist RList (duck_overlay2 (f_overlay_glue F) (f_overlay F) s r pos len)
  | IArrayAppend l v => of_olist RList (duck_array_append (f_append_guard F) l v)
  | IConcat parts => of_olist RList (duck_glue (f_concat_glue F) parts)
  | ILeft s n => RList (duck_left (f_left_floor F) s n)
  | IRight s n => RList (duck_right (f_right_floor F) s n)
  | ISubstr s p n => RList (duck_substr (f_substr_remap F) s p n)
  | ISoundex s => RList (duck_soundex (f_soundex F) s)
  end.

Definition spark_of (i : ein) : rv :=
  match i with
  | ISlice l s n => RList (spark_slice_gen l s n)
  | IElementAt l e | ITryElementAt l e => of_opt (spark_element_at l (ieval e))
  | IGetItem l e => of_opt (spark_getItem l (ieval e))
  | IArrayMin l => match isort l with m :: _ => RInt m | [] => RNull end
  | IArrayMax l => match rev (isort l) with m :: _ => RInt m | [] => RNull end
  | IArrayPosition l v => of_opt (spark_array_position l v)
  | IFactorial n => of_opt (spark_factorial n)
  | IRint n d => of_opt (spark_rint n d)
  | IDayOfWeek day => RInt (spark_dayofweek day)
  | IOverlay s r pos len => RList (spark_overlay s r pos len)
  | IArraysOverlap a b => RBool (spark_arrays_overlap a b)
  | IArrayUnion a b => RBag (spark_array_union a b)
  | IArrayRemove l v => ROList (spark_array_remove l v)
  | INanvl a b => of_dv (spark_nanvl a b)
  | ISequence a b st => RList (spark_sequence a b st)
  | IDateAdd d n => RInt (d + n)
  | IDateSub d n => RInt (d - n)
  | ILevenshtein dist thr => of_opt (spark_levenshtein dist thr)
  | IUnixMillis us => RInt (spark_unix_millis us)
  | IArrayUnionN a b => of_olist RBag (spark_array_union2 a b)
  | IOverlayN s r pos len => of_olist RList (spark_overlay2 s r pos len)
  | IArrayAppend l v => of_olist RList (spark_array_append l v)
  | IConcat parts => of_olist RList (spark_concat parts)
  | ILeft s n => RList (spark_left s n)
  | IRight s n => RList (spark_right s n)
  | ISubstr s p n => RList (spark_substr s p n)
  | ISoundex s => RList (spark_soundex s)
  end.

(** the domain on which the emulation's theorem, instantiated on the facts F, claims equality (false everywhere when the
    generated shape is not the one the theorem needs, e.g. slice in the unchanged tree) *)
Definition in_dom (F : facts) (i : ein) : bool :=
  match i with
  | ISlice l s n =>
      slice_cfg_ok (f_slice F) && (0 <=? n) && ((1 <=? s) || (slice_rebase_exact (f_slice_rebase F) && negb (s =? 0)))
  | IElementAt l e =>
      negb (ieval e =? 0) && (element_at_cfg_exact (f_element_at F) || (element_at_cfg_good (f_element_at F) && simple e))
  | ITryElementAt l e =>
      negb (ieval e =? 0) && (element_at_cfg_exact (f_try_element_at F) || (element_at_cfg_good (f_try_element_at F) && simple e))
  | IGetItem l e => getitem_cfg_ok (f_getitem F) (f_element_at F) && is_lit e && (0 <=? ieval e)
  | IArrayMin l => element_at_cfg_good (f_element_at F) && (f_array_min_idx F =? 1) && negb (match l with [] => true | _ => false end)
  | IArrayMax l => element_at_cfg_good (f_element_at F) && (f_array_max_idx F =? -1) && negb (match l with [] => true | _ => false end)
  | IArrayPosition l v => pos_cfg_exact (f_pos F) || (pos_cfg_ok (f_pos F) && match l with Some _ => true | None => false end)
  | IFactorial n => fact_cfg_ok (f_fact F) && (fact_guard_exact (f_fact_guard F) || ((0 <=? n) && (n <=? 20)))
  | IRint n d => (0 <? d) && (rint_cfg_exact (f_rint F) || (rint_cfg_ok (f_rint F) && negb (is_tie n d)))
  | IDayOfWeek _ => f_dow F =? 1
  | IOverlay s r pos len => overlay_cfg_ok (f_overlay F) && (1 <=? pos) && (0 <=? len)
  | IArraysOverlap _ _ => overlap_cfg_ok (f_overlap F)
  | IArrayUnion _ _ => union_cfg_ok (f_union F)
  | IArrayRemove l v => cmpop_eqb (f_remove F) CNe && no_nulls l
  | INanvl a b => nanvl_cfg_exact (f_nanvl F) || (nanvl_cfg_ok (f_nanvl F) && match a with Some _ => true | None => false end)
  | ISequence a b st =>
      seq_cfg_exact (f_seq_default F) || (seq_cfg_ok (f_seq_default F) && match st with Some _ => true | None => a <=? b end)
  | IDateAdd _ _ | IDateSub _ _ => dshift_cfg_ok (f_date_add F) && dshift_cfg_ok (f_date_sub F)
  | ILevenshtein dist _ => lev_cfg_exact (f_lev F) || (lev_cfg_ok (f_lev F) && match dist with Some _ => true | None => false end)
  | IUnixMillis us =>
      (millis_cfg_exact (f_unix_millis F) && ((0 <=? us) || (us mod 1000 =? 0))) ||
      (millis_cfg_ok (f_unix_millis F) && (us mod 1000000 =? 0))
  | IArrayUnionN a b =>
      union_cfg_ok (f_union F) && (f_union_guard F || match a, b with Some _, Some _ => true | _, _ => false end)
  | IOverlayN s r pos len =>
      overlay_cfg_ok (f_overlay F) && (1 <=? pos) && (0 <=? len) &&
      (match f_overlay_glue F with GluePipes => true | GlueConcat => false end || match s, r with Some _, Some _ => true | _, _ => false end)
  | IArrayAppend l v => f_append_guard F || match l with Some _ => true | None => false end
  | IConcat parts =>
      match f_concat_glue F with GluePipes => true | GlueConcat => false end ||
      forallb (fun p => match p with Some _ => true | None => false end) parts
  | ILeft s n => floor_exact (f_left_floor F) || (0 <=? n)
  | IRight s n => floor_exact (f_right_floor F) || (0 <=? n)
  | ISubstr s p n => (0 <=? n) && ((1 <=? p) || (remap_exact (f_substr_remap F) && (0 <=? p)))
  | ISoundex s => soundex_cfg_ok (f_soundex F) && (sx_nonletter_first_unchanged (f_soundex F) || starts_with_letter s)
                  && forallb (fun c => (0 <=? c) && (c <? 128)) s
  end.

Open Scope string_scope.
Definition bit (b : bool) : string := if b then "1" else "0".
(** "abcd": a = implementation value equals the DuckDB-side model, b = recorded PySpark value equals the Spark-side
    definition, c = input in the theorem's domain, d = the two models agree on this input *)
Definition check (F : facts) (c : ein * rv * rv) : string :=
  let '(i, impl, sp) := c in
  bit (rv_eqb (duck_of F i) impl) ++ bit (rv_eqb (spark_of i) sp) ++ bit (in_dom F i) ++ bit (rv_eqb (duck_of F i) (spark_of i)).
