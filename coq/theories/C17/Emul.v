(** C17: value semantics of the emulations that SQLFRAME ITSELF writes for DuckDB (index-base shifts, NULL guards
    built from CASE/COALESCE, argument arithmetic, compositions of other functions), against Spark 3.5's
    semantics of the same call.

    Every emulation has
      - a configuration type ([..._cfg]) holding exactly the part of the shape that the source decides (which
        constant is added, which comparison, which default); the configuration is REGENERATED from /repo by
        translate/c17_facts.py on every run (Gen.C17Facts);
      - [duck_f cfg args]: what DuckDB computes for the expression sqlframe builds under that configuration;
      - [spark_f args]: what Spark 3.5 computes for the call;
      - a decidable [f_cfg_ok cfg] and a theorem [f_ok : f_cfg_ok cfg = true -> forall in-domain args, duck = spark].
    Engine primitives whose behaviour matters only through a law (sorting, set intersection, duplicate removal)
    are Section variables with the law as a named hypothesis, i.e. a PREMISE of the theorem.  Engine primitives
    with a definite value (list indexing, list_slice, SUBSTRING, ROUND, generate_series ...) are Coq definitions;
    they are my statement of the environment's behaviour and are validated on every run against DuckDB and against
    values recorded from PySpark 3.5.9 (tie T3 in checks/c17.py).  No axioms. *)
From Coq Require Import ZArith List Bool Lia ZifyBool Permutation Sorted.
Import ListNotations.
Open Scope Z_scope.

(* ------------------------------------------------------------------------------------------------------------ *)
(** * Shared small pieces *)

(** affine forms  a*s + b*n + c  over two integer arguments *)
Definition aff := (Z * Z * Z)%type.
Definition aff_eval (f : aff) (s n : Z) : Z := let '(a, b, c) := f in a * s + b * n + c.
Definition aff_eqb (f g : aff) : bool :=
  let '(a, b, c) := f in let '(a', b', c') := g in (a =? a') && (b =? b') && (c =? c').
Lemma aff_eqb_eq : forall f g, aff_eqb f g = true -> f = g.
Proof. intros [[a b] c] [[a' b'] c'] H. unfold aff_eqb in H. f_equal; [f_equal|]; lia. Qed.

Inductive cmpop := CEq | CNe | CLt | CLe | CGt | CGe.
Definition cmp_eval (o : cmpop) (x y : Z) : bool :=
  match o with CEq => x =? y | CNe => negb (x =? y) | CLt => x <? y | CLe => x <=? y | CGt => x >? y | CGe => x >=? y end.
Definition cmpop_eqb (a b : cmpop) : bool :=
  match a, b with CEq, CEq | CNe, CNe | CLt, CLt | CLe, CLe | CGt, CGt | CGe, CGe => true | _, _ => false end.
Lemma cmpop_eqb_eq : forall a b, cmpop_eqb a b = true -> a = b.
Proof. destruct a, b; simpl; congruence. Qed.

Lemma nth_error_rev : forall {A} (l : list A) k, (k < length l)%nat ->
  nth_error (rev l) k = nth_error l (length l - S k).
Proof.
  intros A l. induction l as [|a l IH]; intros k Hk; simpl in *; [lia|].
  destruct (Nat.eq_dec k (length l)) as [->|Hne].
  - rewrite nth_error_app2 by (rewrite rev_length; lia).
    rewrite rev_length, Nat.sub_diag. simpl. reflexivity.
  - rewrite nth_error_app1 by (rewrite rev_length; lia).
    rewrite IH by lia.
    destruct (length l - k)%nat as [|m] eqn:E; [lia|].
    simpl. f_equal. lia.
Qed.

(* ------------------------------------------------------------------------------------------------------------ *)
(** * slice  (function_alternatives.slice_as_list_slice) *)

Record slice_cfg := mkSlice { sl_lo : aff; sl_hi : aff }.     (* LIST_SLICE(x, lo(start,length), hi(start,length)) *)
Definition slice_cfg_ok (c : slice_cfg) : bool := aff_eqb (sl_lo c) (1, 0, 0) && aff_eqb (sl_hi c) (1, 1, -1).
Definition slice_cfg_one_too_many (c : slice_cfg) : bool := aff_eqb (sl_lo c) (1, 0, 0) && aff_eqb (sl_hi c) (1, 1, 0).

Section Slice.
  Context {A : Type}.
  (** DuckDB list_slice(l, b, e) for 1 <= b: the elements at 1-based positions b..e, both inclusive *)
  Definition duck_list_slice (l : list A) (b e : Z) : list A :=
    firstn (Z.to_nat (e - b + 1)) (skipn (Z.to_nat (b - 1)) l).
  (** Spark slice(l, start, length) for 1 <= start *)
  Definition spark_slice (l : list A) (s n : Z) : list A := firstn (Z.to_nat n) (skipn (Z.to_nat (s - 1)) l).
  Definition duck_slice (c : slice_cfg) (l : list A) (s n : Z) : list A :=
    duck_list_slice l (aff_eval (sl_lo c) s n) (aff_eval (sl_hi c) s n).

  Theorem slice_ok : forall c, slice_cfg_ok c = true ->
    forall l s n, 1 <= s -> 0 <= n -> duck_slice c l s n = spark_slice l s n.
  Proof.
    intros [lo hi] H l s n Hs Hn. unfold slice_cfg_ok in H; simpl in H.
    apply andb_prop in H as [H1 H2]. apply aff_eqb_eq in H1, H2. subst lo hi.
    unfold duck_slice, duck_list_slice, spark_slice, aff_eval; cbn [sl_lo sl_hi].
    f_equal; [|f_equal]; f_equal; lia.
  Qed.

  (** the shape found in the unchanged tree returns one element too many *)
  Theorem slice_one_too_many : forall c, slice_cfg_one_too_many c = true ->
    forall l s n, 1 <= s -> 0 <= n -> duck_slice c l s n = spark_slice l s (n + 1).
  Proof.
    intros [lo hi] H l s n Hs Hn. unfold slice_cfg_one_too_many in H; simpl in H.
    apply andb_prop in H as [H1 H2]. apply aff_eqb_eq in H1, H2. subst lo hi.
    unfold duck_slice, duck_list_slice, spark_slice, aff_eval; cbn [sl_lo sl_hi].
    f_equal; [|f_equal]; f_equal; lia.
  Qed.
End Slice.

(* ------------------------------------------------------------------------------------------------------------ *)
(** * The index family: element_at, try_element_at, Column.getItem, array_min, array_max *)

(** the index expression a user passes, as far as the two shift decisions can see it *)
Inductive iexp :=
| ILit (n : Z)            (* an integer literal (Python int or F.lit(int)) *)
| ICol (v : Z)            (* a column reference with run-time value v; sqlglot does not know its type *)
| ITyped (v : Z)          (* an expression whose integer type sqlglot can see, e.g. col.cast('int') *)
| IAdd (a b : iexp).
Fixpoint ieval (e : iexp) : Z := match e with ILit n | ICol n | ITyped n => n | IAdd a b => ieval a + ieval b end.
(** [x for x in value.column_expression.find_all(expression.Literal) if x.is_number] is non-empty *)
Fixpoint has_lit (e : iexp) : bool := match e with ILit _ => true | IAdd a b => has_lit a || has_lit b | _ => false end.
(** isinstance(e, expression.Literal) and e.is_number *)
Definition is_lit (e : iexp) : bool := match e with ILit _ => true | _ => false end.
(** sqlglot annotate_types gives the index an INTEGER type *)
Fixpoint int_typed (e : iexp) : bool :=
  match e with ILit _ | ITyped _ => true | ICol _ => false | IAdd a b => int_typed a && int_typed b end.
(** the ordinary ways to pass an index: a literal or a plain column *)
Definition simple (e : iexp) : bool := match e with ILit _ | ICol _ => true | _ => false end.

Inductive litcond := CondHasLit | CondIsLit | CondAlways | CondNever.
Definition cond_holds (c : litcond) (e : iexp) : bool :=
  match c with CondHasLit => has_lit e | CondIsLit => is_lit e | CondAlways => true | CondNever => false end.
Record shift_cfg := mkShift { sh_cond : litcond; sh_by : Z; sh_offset : Z }.
  (* if cond(e): e := e + lit(by);  then Bracket(.., offset = sh_offset) (0 when the argument is absent) *)
Definition apply_shift (c : shift_cfg) (e : iexp) : iexp := if cond_holds (sh_cond c) e then IAdd e (ILit (sh_by c)) else e.

(** sqlglot's DuckDB generator (Dialect.INDEX_OFFSET = 1, Generator.bracket_offset_expressions,
    helper.apply_index_offset): an index of integer type is emitted plus (INDEX_OFFSET - Bracket.offset), any other
    index unchanged *)
Definition emit_index (off : Z) (e : iexp) : Z := if int_typed e then ieval e + (1 - off) else ieval e.

(** the hand-made re-basing: minus one on literal-bearing indices, no offset on the Bracket *)
Definition element_at_cfg_ok (c : shift_cfg) : bool :=
  match sh_cond c with CondHasLit | CondIsLit => (sh_by c =? -1) && (sh_offset c =? 0) | _ => false end.
(** the exact shape: the index is passed unchanged and the Bracket says it is already 1-based *)
Definition element_at_cfg_exact (c : shift_cfg) : bool :=
  match sh_cond c with CondNever => sh_offset c =? 1 | _ => false end.
Definition element_at_cfg_good (c : shift_cfg) : bool := element_at_cfg_ok c || element_at_cfg_exact c.
Definition getitem_cfg_ok (g e : shift_cfg) : bool :=
  match sh_cond g with
  | CondHasLit | CondIsLit =>
      (sh_by g =? 1) &&
      (element_at_cfg_exact e ||
       match sh_cond e with CondHasLit => (sh_by e =? -1) && (sh_offset e =? 0) | _ => false end)
  | _ => false
  end.

Section Index.
  Context {A : Type}.
  (** DuckDB l[i]: 1-based, negative from the end, 0 / out of range -> NULL *)
  Definition duck_index (l : list A) (i : Z) : option A :=
    if 0 <? i then nth_error l (Z.to_nat (i - 1))
    else if i <? 0 then
      (if 0 <=? Z.of_nat (length l) + i then nth_error l (Z.to_nat (Z.of_nat (length l) + i)) else None)
    else None.
  (** Spark element_at(l, i), ANSI off, i <> 0 (0 is an error in Spark) *)
  Definition spark_element_at (l : list A) (i : Z) : option A :=
    if 0 <? i then nth_error l (Z.to_nat (i - 1)) else nth_error (rev l) (Z.to_nat (- i - 1)).
  (** Spark Column.getItem(k) on an array: 0-based, NULL outside *)
  Definition spark_getItem (l : list A) (k : Z) : option A := if k <? 0 then None else nth_error l (Z.to_nat k).

  Lemma duck_index_is_element_at : forall l i, i <> 0 -> duck_index l i = spark_element_at l i.
  Proof.
    intros l i Hi. unfold duck_index, spark_element_at.
    destruct (0 <? i) eqn:E1; [reflexivity|].
    destruct (i <? 0) eqn:E2; [|lia].
    destruct (0 <=? Z.of_nat (length l) + i) eqn:E3.
    - rewrite nth_error_rev by lia. f_equal. lia.
    - symmetry. apply nth_error_None. rewrite rev_length. lia.
  Qed.

  Definition duck_element_at (c : shift_cfg) (l : list A) (e : iexp) : option A :=
    duck_index l (emit_index (sh_offset c) (apply_shift c e)).
  Definition duck_getItem (g c : shift_cfg) (l : list A) (e : iexp) : option A :=
    duck_element_at c l (apply_shift g e).

  (** every index expression, when the Bracket carries offset = 1 *)
  Theorem element_at_exact : forall c, element_at_cfg_exact c = true ->
    forall l e, ieval e <> 0 -> duck_element_at c l e = spark_element_at l (ieval e).
  Proof.
    intros [cond by_ off] H l e Hz. unfold element_at_cfg_exact in H; simpl in H.
    destruct cond; try discriminate. assert (off = 1) by lia. subst off.
    unfold duck_element_at, apply_shift; simpl.
    rewrite <- duck_index_is_element_at by exact Hz. f_equal.
    unfold emit_index. destruct (int_typed e); lia.
  Qed.

  (** literal or plain-column indices, under either shape *)
  Theorem element_at_ok : forall c, element_at_cfg_good c = true ->
    forall l e, simple e = true -> ieval e <> 0 -> duck_element_at c l e = spark_element_at l (ieval e).
  Proof.
    intros c H l e Hs Hz. unfold element_at_cfg_good in H. apply orb_prop in H as [H|H];
      [|exact (element_at_exact c H l e Hz)].
    destruct c as [cond by_ off]. unfold element_at_cfg_ok in H; simpl in H.
    unfold duck_element_at, apply_shift; simpl.
    rewrite <- duck_index_is_element_at by exact Hz. f_equal.
    destruct cond; try discriminate; apply andb_prop in H as [H1 H2];
      assert (by_ = -1) by lia; assert (off = 0) by lia; subst by_ off;
      destruct e as [n|v|v|a b]; try discriminate; unfold emit_index; simpl; lia.
  Qed.

  Theorem getItem_ok : forall g c, getitem_cfg_ok g c = true ->
    forall l n, 0 <= n -> duck_getItem g c l (ILit n) = spark_getItem l n.
  Proof.
    intros [gc gb go] [cc cb co] H l n Hn. unfold getitem_cfg_ok in H; simpl in H.
    assert (E : emit_index co (apply_shift (mkShift cc cb co) (apply_shift (mkShift gc gb go) (ILit n))) = n + 1).
    { unfold element_at_cfg_exact in H; cbn [sh_cond sh_by sh_offset] in H.
      destruct gc; try discriminate; destruct cc; cbn [orb] in H;
        try (rewrite andb_false_r in H; discriminate);
        apply andb_prop in H as [Hg He]; try rewrite orb_false_r in He; try apply andb_prop in He as [He1 He2];
        unfold apply_shift, emit_index;
        cbn [cond_holds has_lit is_lit int_typed ieval sh_cond sh_by sh_offset andb orb]; lia. }
    unfold duck_getItem, duck_element_at, spark_getItem. cbn [sh_offset]. rewrite E. unfold duck_index.
    destruct (0 <? n + 1) eqn:E1; [|lia]. destruct (n <? 0) eqn:E2; [lia|]. f_equal. lia.
  Qed.
End Index.

(** array_min / array_max = element_at(array_sort(col), idx): the sort is a premise *)
Section MinMax.
  Variable sort : list Z -> list Z.
  Hypothesis sort_perm : forall l, Permutation l (sort l).
  Hypothesis sort_sorted : forall l, Sorted Z.le (sort l).

  Definition duck_array_extreme (c : shift_cfg) (idx : Z) (l : list Z) : option Z :=
    duck_element_at c (sort l) (ILit idx).

  Lemma sorted_strong : forall l, StronglySorted Z.le (sort l).
  Proof. intro l. apply Sorted_StronglySorted; [intros x y z; lia | apply sort_sorted]. Qed.

  Theorem array_min_ok : forall c, element_at_cfg_good c = true -> forall l, l <> [] ->
    exists m, duck_array_extreme c 1 l = Some m /\ In m l /\ Forall (fun y => m <= y) l.
  Proof.
    intros c H l Hne. unfold duck_array_extreme.
    rewrite (element_at_ok c H) by (simpl; first [reflexivity | lia]). simpl.
    pose proof (sort_perm l) as P. pose proof (sorted_strong l) as S.
    destruct (sort l) as [|m t] eqn:E.
    - apply Permutation_sym, Permutation_nil in P. contradiction.
    - exists m. unfold spark_element_at. simpl. split; [reflexivity|]. split.
      + apply Permutation_in with (l := m :: t); [apply Permutation_sym, P | left; reflexivity].
      + inversion S as [|? ? S' F]; subst.
        assert (Fm : Forall (fun y => m <= y) (m :: t)).
        { constructor; [lia | exact F]. }
        rewrite Forall_forall in *. intros y Hy. apply Fm.
        apply Permutation_in with (l := l); assumption.
  Qed.

  Lemma last_of_sorted : forall s, StronglySorted Z.le s -> forall m, nth_error (rev s) 0 = Some m ->
    In m s /\ Forall (fun y => y <= m) s.
  Proof.
    induction s as [|a s IH]; intros S m Hm; [discriminate|].
    inversion S as [|? ? S' F]; subst. simpl in Hm.
    destruct (rev s) as [|b r] eqn:E.
    - simpl in Hm. injection Hm as <-.
      assert (s = []) by (apply (f_equal (@rev Z)) in E; rewrite rev_involutive in E; exact E). subst s.
      split; [left; reflexivity | constructor; [lia | constructor]].
    - simpl in Hm. injection Hm as <-.
      destruct (IH S' b) as [Hin Hall]; [first [reflexivity | rewrite E; reflexivity]|].
      split; [right; exact Hin|]. constructor; [|exact Hall].
      rewrite Forall_forall in F. apply F. exact Hin.
  Qed.

  Theorem array_max_ok : forall c, element_at_cfg_good c = true -> forall l, l <> [] ->
    exists m, duck_array_extreme c (-1) l = Some m /\ In m l /\ Forall (fun y => y <= m) l.
  Proof.
    intros c H l Hne. unfold duck_array_extreme.
    rewrite (element_at_ok c H) by (simpl; first [reflexivity | lia]). simpl.
    pose proof (sort_perm l) as P. pose proof (sorted_strong l) as S.
    assert (X : spark_element_at (sort l) (-1) = nth_error (rev (sort l)) 0) by reflexivity.
    rewrite X. clear X.
    destruct (nth_error (rev (sort l)) 0) as [m|] eqn:E.
    - destruct (last_of_sorted _ S m E) as [Hin Hall]. exists m. split; [reflexivity|]. split.
      + apply Permutation_in with (l := sort l); [apply Permutation_sym, P | exact Hin].
      + rewrite Forall_forall in *. intros y Hy. apply Hall. apply Permutation_in with (l := l); assumption.
    - exfalso. apply nth_error_None in E. rewrite rev_length in E.
      apply Permutation_length in P. destruct l; [contradiction | simpl in P; lia].
  Qed.
End MinMax.

(* ------------------------------------------------------------------------------------------------------------ *)
(** * array_position: COALESCE(ARRAY_POSITION(col, v), default) *)

Fixpoint find_pos (v : Z) (l : list Z) (k : Z) : option Z :=
  match l with [] => None | x :: t => if x =? v then Some k else find_pos v t (k + 1) end.
(** DuckDB list_position: 1-based position of the first match, NULL when there is none, NULL on a NULL list *)
Definition duck_list_position (l : option (list Z)) (v : Z) : option Z :=
  match l with None => None | Some l => find_pos v l 1 end.
(** Spark array_position: 0 when there is none, NULL on a NULL array *)
Definition spark_array_position (l : option (list Z)) (v : Z) : option Z :=
  match l with None => None | Some l => Some (match find_pos v l 1 with Some k => k | None => 0 end) end.
Record pos_cfg := mkPos { pos_default : option Z; pos_null_guard : bool }.
  (* [CASE WHEN col IS NOT NULL THEN] COALESCE(ARRAY_POSITION(col, v), default) [END] *)
Definition coalesce2 (a d : option Z) : option Z := match a with Some _ => a | None => d end.
Definition duck_array_position (c : pos_cfg) (l : option (list Z)) (v : Z) : option Z :=
  if pos_null_guard c
  then match l with None => None | Some _ => coalesce2 (duck_list_position l v) (pos_default c) end
  else coalesce2 (duck_list_position l v) (pos_default c).
Definition pos_cfg_ok (c : pos_cfg) : bool := match pos_default c with Some d => d =? 0 | None => false end.
Definition pos_cfg_exact (c : pos_cfg) : bool := pos_cfg_ok c && pos_null_guard c.

Theorem array_position_ok : forall c, pos_cfg_ok c = true ->
  forall l v, duck_array_position c (Some l) v = spark_array_position (Some l) v.
Proof.
  intros [[d|] g] H l v; unfold pos_cfg_ok in H; simpl in H; [|discriminate].
  assert (d = 0) by lia. subst d. unfold duck_array_position, spark_array_position; simpl.
  destruct g; destruct (find_pos v l 1); reflexivity.
Qed.
(** with the NULL guard: every array, NULL included *)
Theorem array_position_exact : forall c, pos_cfg_exact c = true ->
  forall l v, duck_array_position c l v = spark_array_position l v.
Proof.
  intros c H [l|] v.
  - apply array_position_ok. unfold pos_cfg_exact in H. apply andb_prop in H as [H _]. exact H.
  - unfold pos_cfg_exact in H. apply andb_prop in H as [_ H]. unfold duck_array_position. rewrite H. reflexivity.
Qed.
(** without it the COALESCE answers 0 for a NULL array, where Spark answers NULL *)
Theorem array_position_null_array : forall c, pos_cfg_ok c = true -> pos_null_guard c = false ->
  forall v, duck_array_position c None v = Some 0 /\ spark_array_position None v = None.
Proof.
  intros [[d|] g] H Hg v; unfold pos_cfg_ok in H; simpl in *; [|discriminate]. subst g.
  assert (d = 0) by lia. subst d. split; reflexivity.
Qed.

(* ------------------------------------------------------------------------------------------------------------ *)
(** * factorial: FACTORIAL(CAST(col AS INTEGER)) against Spark's 21-entry table *)

(** Spark: Factorial.eval looks up this table for 0..20 and returns NULL otherwise (mathExpressions.scala) *)
Definition spark_factorial_table : list Z :=
  [1; 1; 2; 6; 24; 120; 720; 5040; 40320; 362880; 3628800; 39916800; 479001600; 6227020800; 87178291200;
   1307674368000; 20922789888000; 355687428096000; 6402373705728000; 121645100408832000; 2432902008176640000].
Definition spark_factorial (n : Z) : option Z :=
  if (0 <=? n) && (n <=? 20) then nth_error spark_factorial_table (Z.to_nat n) else None.
Fixpoint zfact (k : nat) : Z := match k with O => 1 | S k' => Z.of_nat k * zfact k' end.
(** DuckDB factorial(n) for 0 <= n: n! (exact, HUGEINT) *)
Definition duck_factorial_prim (n : Z) : option Z := if 0 <=? n then Some (zfact (Z.to_nat n)) else None.
Inductive cast_ty := TyInteger | TyBigint | TyDouble | TyOther.
Record fact_cfg := mkFact { fc_prim_is_factorial : bool; fc_cast : cast_ty }.
(** a cast to an integer type is the identity on integers in range (20 fits every integer type) *)
Definition duck_factorial (c : fact_cfg) (n : Z) : option Z :=
  if fc_prim_is_factorial c then
    match fc_cast c with TyInteger | TyBigint => duck_factorial_prim n | _ => None end
  else None.
Definition fact_cfg_ok (c : fact_cfg) : bool :=
  fc_prim_is_factorial c && match fc_cast c with TyInteger | TyBigint => true | _ => false end.
Definition upto20 : list Z := map Z.of_nat (seq 0 21).
Lemma factorial_sweep : forallb (fun n => match duck_factorial_prim n, spark_factorial n with
                                          | Some a, Some b => a =? b | _, _ => false end) upto20 = true.
Proof. vm_compute. reflexivity. Qed.
Theorem factorial_ok : forall c, fact_cfg_ok c = true ->
  forall n, 0 <= n <= 20 -> duck_factorial c n = spark_factorial n.
Proof.
  intros [p t] H n Hn. unfold fact_cfg_ok in H; simpl in H. apply andb_prop in H as [-> Ht].
  assert (Hin : In n upto20).
  { unfold upto20. replace n with (Z.of_nat (Z.to_nat n)) by lia. apply in_map, in_seq. lia. }
  pose proof (proj1 (forallb_forall _ _) factorial_sweep n Hin) as S. simpl in S.
  unfold duck_factorial; simpl.
  destruct t; try discriminate;
    destruct (duck_factorial_prim n) as [a|], (spark_factorial n) as [b|]; try discriminate; f_equal; lia.
Qed.

(* ------------------------------------------------------------------------------------------------------------ *)
(** * rint: ROUND(col, 0).  The argument is the rational n/d (every double is one). *)

(** DuckDB ROUND(x, 0) on DOUBLE: C round(), ties away from zero *)
Definition round_half_away (n d : Z) : Z :=
  let q := n / d in let r := n mod d in
  if 2 * r <? d then q else if d <? 2 * r then q + 1 else (if 0 <=? n then q + 1 else q).
(** Spark rint: Math.rint, ties to even *)
Definition round_half_even (n d : Z) : Z :=
  let q := n / d in let r := n mod d in
  if 2 * r <? d then q else if d <? 2 * r then q + 1 else (if Z.even q then q else q + 1).
Inductive round_prim := RoundHalfAway | RoundHalfEven.       (* ROUND(x, s)  |  ROUND_EVEN(x, s) *)
Record rint_cfg := mkRint { ri_prim : round_prim; ri_scale : Z }.
Definition rint_cfg_ok (c : rint_cfg) : bool := ri_scale c =? 0.
Definition rint_cfg_exact (c : rint_cfg) : bool :=
  (ri_scale c =? 0) && match ri_prim c with RoundHalfEven => true | RoundHalfAway => false end.
Definition duck_rint (c : rint_cfg) (n d : Z) : option Z :=
  if ri_scale c =? 0
  then Some (match ri_prim c with RoundHalfAway => round_half_away n d | RoundHalfEven => round_half_even n d end)
  else None.
Definition spark_rint (n d : Z) : option Z := Some (round_half_even n d).
Definition is_tie (n d : Z) : bool := 2 * (n mod d) =? d.

Theorem rint_ok : forall c, rint_cfg_ok c = true ->
  forall n d, 0 < d -> is_tie n d = false -> duck_rint c n d = spark_rint n d.
Proof.
  intros [p sc] H n d Hd Ht. unfold duck_rint, spark_rint. unfold rint_cfg_ok in H. simpl in *. rewrite H. f_equal.
  destruct p; [|reflexivity].
  unfold round_half_away, round_half_even, is_tie in *. cbv zeta.
  destruct (2 * (n mod d) <? d) eqn:E1; [reflexivity|].
  destruct (d <? 2 * (n mod d)) eqn:E2; [reflexivity|]. lia.
Qed.
(** ROUND_EVEN: every rational, ties included *)
Theorem rint_exact : forall c, rint_cfg_exact c = true -> forall n d, duck_rint c n d = spark_rint n d.
Proof.
  intros [p sc] H n d. unfold rint_cfg_exact in H; simpl in H. apply andb_prop in H as [H1 H2].
  unfold duck_rint, spark_rint; simpl. rewrite H1. destruct p; [discriminate | reflexivity].
Qed.
(** ROUND: on ties the two differ whenever half-away does not land on an even number, e.g. 2.5 and 0.5 *)
Theorem rint_tie_differs : forall c, rint_cfg_ok c = true -> ri_prim c = RoundHalfAway ->
  duck_rint c 5 2 = Some 3 /\ spark_rint 5 2 = Some 2 /\ duck_rint c 1 2 = Some 1 /\ spark_rint 1 2 = Some 0.
Proof.
  intros [p sc] H Hp. simpl in Hp. subst p. unfold duck_rint. unfold rint_cfg_ok in H. simpl in *. rewrite H.
  repeat split.
Qed.

(* ------------------------------------------------------------------------------------------------------------ *)
(** * dayofweek: DAYOFWEEK(d) + shift.  A date is its day number since 1970-01-01 (a Thursday). *)

Definition duck_dayofweek_prim (day : Z) : Z := (day + 4) mod 7.          (* DuckDB: Sunday = 0 .. Saturday = 6 *)
Definition spark_dayofweek (day : Z) : Z := (day + 4) mod 7 + 1.           (* Spark:  Sunday = 1 .. Saturday = 7 *)
Definition duck_dayofweek (shift : Z) (day : Z) : Z := duck_dayofweek_prim day + shift.
Theorem dayofweek_ok : forall shift, (shift =? 1) = true -> forall day, duck_dayofweek shift day = spark_dayofweek day.
Proof. intros shift H day. unfold duck_dayofweek, spark_dayofweek, duck_dayofweek_prim. lia. Qed.

(* ------------------------------------------------------------------------------------------------------------ *)
(** * overlay: CONCAT(SUBSTRING(src, s1, len1(pos,len)), replace, SUBSTRING(src, s2(pos,len), LENGTH(src))) *)

Record overlay_cfg := mkOverlay { ov_first_start : Z; ov_first_len : aff; ov_second_start : aff; ov_order_ok : bool }.
Definition overlay_cfg_ok (c : overlay_cfg) : bool :=
  (ov_first_start c =? 1) && aff_eqb (ov_first_len c) (1, 0, -1) && aff_eqb (ov_second_start c) (1, 1, 0) && ov_order_ok c.

Section Overlay.
  Context {A : Type}.
  (** SQL SUBSTRING(s, p, n) for 1 <= p (n <= 0 gives the empty string) *)
  Definition sql_substring (l : list A) (p n : Z) : list A := firstn (Z.to_nat n) (skipn (Z.to_nat (p - 1)) l).
  Definition duck_overlay (c : overlay_cfg) (s r : list A) (pos len : Z) : list A :=
    if ov_order_ok c then
      sql_substring s (ov_first_start c) (aff_eval (ov_first_len c) pos len) ++ r ++
      sql_substring s (aff_eval (ov_second_start c) pos len) (Z.of_nat (length s))
    else [].
  (** Spark Overlay: substring(input, 1, pos-1) ++ replace ++ substring(input, pos+len) *)
  Definition spark_overlay (s r : list A) (pos len : Z) : list A :=
    firstn (Z.to_nat (pos - 1)) s ++ r ++ skipn (Z.to_nat (pos - 1 + len)) s.

  Theorem overlay_ok : forall c, overlay_cfg_ok c = true ->
    forall s r pos len, 1 <= pos -> 0 <= len -> duck_overlay c s r pos len = spark_overlay s r pos len.
  Proof.
    intros [fs fl ss oo] H s r pos len Hp Hl. unfold overlay_cfg_ok in H; simpl in H.
    repeat (apply andb_prop in H as [H ?]). apply aff_eqb_eq in H1, H2. subst fl ss oo.
    assert (fs = 1) by lia. subst fs.
    unfold duck_overlay, spark_overlay, sql_substring, aff_eval;
      cbn [ov_first_start ov_first_len ov_second_start ov_order_ok].
    replace (1 * pos + 0 * len + -1) with (pos - 1) by lia.
    replace (1 * pos + 1 * len + 0 - 1) with (pos - 1 + len) by lia.
    replace (Z.to_nat (1 - 1)) with 0%nat by lia. cbn [skipn].
    f_equal. f_equal. apply firstn_all2. rewrite skipn_length. lia.
  Qed.
End Overlay.

(* ------------------------------------------------------------------------------------------------------------ *)
(** * arrays_overlap: ARRAY_LENGTH(ARRAY_INTERSECT(a, b)) cmp threshold   (arrays without NULL elements) *)

Record overlap_cfg := mkOverlap { ovl_cmp : cmpop; ovl_thr : Z }.
Definition overlap_cfg_ok (c : overlap_cfg) : bool := cmpop_eqb (ovl_cmp c) CGt && (ovl_thr c =? 0).
Definition spark_arrays_overlap (a b : list Z) : bool := existsb (fun x => existsb (Z.eqb x) b) a.

Section Overlap.
  Variable inter : list Z -> list Z -> list Z.
  Hypothesis inter_spec : forall a b x, In x (inter a b) <-> In x a /\ In x b.
  Definition duck_arrays_overlap (c : overlap_cfg) (a b : list Z) : bool :=
    cmp_eval (ovl_cmp c) (Z.of_nat (length (inter a b))) (ovl_thr c).

  Theorem arrays_overlap_ok : forall c, overlap_cfg_ok c = true ->
    forall a b, duck_arrays_overlap c a b = spark_arrays_overlap a b.
  Proof.
    intros [o t] H a b. unfold overlap_cfg_ok in H; simpl in H. apply andb_prop in H as [H1 H2].
    apply cmpop_eqb_eq in H1. subst o. assert (t = 0) by lia. subst t.
    unfold duck_arrays_overlap, spark_arrays_overlap; simpl.
    destruct (existsb (fun x => existsb (Z.eqb x) b) a) eqn:E.
    - apply existsb_exists in E as [x [Ha Hb]]. apply existsb_exists in Hb as [y [Hy Hxy]].
      assert (x = y) by lia. subst y.
      assert (Hi : In x (inter a b)) by (apply inter_spec; split; assumption).
      destruct (inter a b); [contradiction | simpl; lia].
    - destruct (inter a b) as [|y r] eqn:Ei; [reflexivity|].
      assert (Hi : In y (inter a b)) by (rewrite Ei; left; reflexivity).
      apply inter_spec in Hi as [Ha Hb].
      assert (existsb (fun x => existsb (Z.eqb x) b) a = true).
      { apply existsb_exists. exists y. split; [exact Ha|]. apply existsb_exists. exists y. split; [exact Hb | lia]. }
      congruence.
  Qed.
End Overlap.

(* ------------------------------------------------------------------------------------------------------------ *)
(** * array_union: LIST_DISTINCT(LIST_CONCAT(a, b)), equal to Spark's result up to element order *)

Record union_cfg := mkUnion { un_outer_is_distinct : bool; un_inner_is_concat : bool; un_both_args : bool }.
Definition union_cfg_ok (c : union_cfg) : bool := un_outer_is_distinct c && un_inner_is_concat c && un_both_args c.
(** Spark array_union: the distinct elements of a ++ b in order of first occurrence *)
Definition spark_array_union (a b : list Z) : list Z := rev (nodup Z.eq_dec (rev (a ++ b))).

Section Union.
  Variable dist : list Z -> list Z.
  Hypothesis dist_nodup : forall l, NoDup (dist l).
  Hypothesis dist_in : forall l x, In x (dist l) <-> In x l.
  Definition duck_array_union (c : union_cfg) (a b : list Z) : list Z :=
    if union_cfg_ok c then dist (a ++ b) else [].

  Theorem array_union_ok : forall c, union_cfg_ok c = true ->
    forall a b, Permutation (duck_array_union c a b) (spark_array_union a b).
  Proof.
    intros c H a b. unfold duck_array_union, spark_array_union. rewrite H.
    apply NoDup_Permutation.
    - apply dist_nodup.
    - apply NoDup_rev, NoDup_nodup.
    - intro x. rewrite dist_in, <- in_rev, nodup_In, <- in_rev. reflexivity.
  Qed.
End Union.

(* ------------------------------------------------------------------------------------------------------------ *)
(** * array_remove: LIST_FILTER(col, x -> x <op> value) *)

Definition no_nulls (l : list (option Z)) : bool := forallb (fun x => match x with Some _ => true | None => false end) l.
(** LIST_FILTER keeps the elements whose predicate is TRUE; a comparison with a NULL element is NULL *)
Definition duck_array_remove (op : cmpop) (l : list (option Z)) (v : Z) : list (option Z) :=
  filter (fun x => match x with Some y => cmp_eval op y v | None => false end) l.
(** Spark array_remove removes the elements equal to v and keeps NULL elements *)
Definition spark_array_remove (l : list (option Z)) (v : Z) : list (option Z) :=
  filter (fun x => match x with Some y => negb (y =? v) | None => true end) l.
Theorem array_remove_ok : forall op, cmpop_eqb op CNe = true ->
  forall l v, no_nulls l = true -> duck_array_remove op l v = spark_array_remove l v.
Proof.
  intros op H l v Hn. apply cmpop_eqb_eq in H. subst op.
  unfold duck_array_remove, spark_array_remove. apply filter_ext_in.
  intros [y|] Hin; [reflexivity|].
  unfold no_nulls in Hn. rewrite forallb_forall in Hn. specialize (Hn None Hin). discriminate.
Qed.

(* ------------------------------------------------------------------------------------------------------------ *)
(** * nanvl: CASE WHEN [NOT] ISNAN(a) THEN .. ELSE .. END *)

Inductive fv := FNaN | FFin (z : Z).
Definition dv := option fv.
Definition isnan3 (a : dv) : option bool := match a with None => None | Some FNaN => Some true | Some _ => Some false end.
Definition not3 (b : option bool) : option bool := option_map negb b.
Definition case_when {T} (c : option bool) (t e : T) : T := match c with Some true => t | _ => e end.
Record nanvl_cfg := mkNanvl { nv_negated : bool; nv_then_is_first : bool; nv_null_guard : bool }.
  (* CASE WHEN [a IS NULL OR] [NOT] ISNAN(a) THEN .. ELSE .. END *)
Definition or3 (x y : option bool) : option bool :=
  match x, y with Some true, _ | _, Some true => Some true | Some false, Some false => Some false | _, _ => None end.
Definition isnull3 (a : dv) : option bool := Some (match a with None => true | Some _ => false end).
Definition nanvl_cfg_ok (c : nanvl_cfg) : bool := Bool.eqb (nv_negated c) (nv_then_is_first c).
Definition nanvl_cfg_exact (c : nanvl_cfg) : bool := nv_negated c && nv_then_is_first c && nv_null_guard c.
Definition duck_nanvl (c : nanvl_cfg) (a b : dv) : dv :=
  let t := if nv_negated c then not3 (isnan3 a) else isnan3 a in
  let cnd := if nv_null_guard c then or3 (isnull3 a) t else t in
  if nv_then_is_first c then case_when cnd a b else case_when cnd b a.
Definition spark_nanvl (a b : dv) : dv := match a with None => None | Some FNaN => b | Some _ => a end.
Theorem nanvl_ok : forall c, nanvl_cfg_ok c = true -> forall a b, a <> None -> duck_nanvl c a b = spark_nanvl a b.
Proof.
  intros [n t g] H a b Ha. unfold nanvl_cfg_ok in H; simpl in H. apply eqb_prop in H. subst t.
  destruct a as [[|z]|]; [| |contradiction]; destruct n, g; reflexivity.
Qed.
(** with the guard `a IS NULL OR NOT ISNAN(a)`: every pair of arguments, NULL included *)
Theorem nanvl_exact : forall c, nanvl_cfg_exact c = true -> forall a b, duck_nanvl c a b = spark_nanvl a b.
Proof.
  intros [n t g] H a b. unfold nanvl_cfg_exact in H; simpl in H.
  apply andb_prop in H as [H Hg]. apply andb_prop in H as [Hn Ht]. subst n t g.
  destruct a as [[|z]|]; reflexivity.
Qed.
Theorem nanvl_null_first : forall c, nanvl_cfg_ok c = true -> nv_negated c = true -> nv_null_guard c = false ->
  duck_nanvl c None (Some (FFin 1)) = Some (FFin 1) /\ spark_nanvl None (Some (FFin 1)) = None.
Proof.
  intros [n t g] H Hn Hg. simpl in Hn, Hg. subst n g. unfold nanvl_cfg_ok in H; simpl in H.
  destruct t; [|discriminate]. split; reflexivity.
Qed.

(* ------------------------------------------------------------------------------------------------------------ *)
(** * sequence: GENERATE_SERIES(start, stop, step or <default>) *)

(** generate_series / Spark sequence with an explicit step: inclusive bounds, empty when the step points away *)
Definition series (a b st : Z) : list Z :=
  if 0 <? st then (if a <=? b then map (fun k => a + Z.of_nat k * st) (seq 0 (Z.to_nat ((b - a) / st) + 1)) else [])
  else if st <? 0 then (if b <=? a then map (fun k => a + Z.of_nat k * st) (seq 0 (Z.to_nat ((a - b) / (- st)) + 1)) else [])
  else [].
Inductive seq_default :=
| SeqConst (k : Z)                                    (* a literal default step *)
| SeqBySign (op : cmpop) (asc desc : Z).              (* CASE WHEN start <op> stop THEN asc ELSE desc END *)
Definition seq_default_eval (d : seq_default) (a b : Z) : Z :=
  match d with SeqConst k => k | SeqBySign op asc desc => if cmp_eval op a b then asc else desc end.
Definition duck_sequence (dflt : seq_default) (a b : Z) (st : option Z) : list Z :=
  series a b (match st with Some s => s | None => seq_default_eval dflt a b end).
(** Spark: the default step is 1 if start <= stop, otherwise -1 *)
Definition spark_sequence (a b : Z) (st : option Z) : list Z :=
  series a b (match st with Some s => s | None => if a <=? b then 1 else -1 end).
Definition seq_cfg_ok (d : seq_default) : bool :=
  match d with SeqConst k => k =? 1 | SeqBySign op asc desc => cmpop_eqb op CLe && (asc =? 1) end.
Definition seq_cfg_exact (d : seq_default) : bool :=
  match d with SeqConst _ => false | SeqBySign op asc desc => cmpop_eqb op CLe && (asc =? 1) && (desc =? -1) end.
Theorem sequence_ok : forall dflt, seq_cfg_ok dflt = true ->
  forall a b st, (st <> None \/ a <= b) -> duck_sequence dflt a b st = spark_sequence a b st.
Proof.
  intros dflt H a b st D. unfold duck_sequence, spark_sequence.
  destruct st as [s|]; [reflexivity|]. destruct D as [D|D]; [congruence|]. f_equal.
  destruct dflt as [k|op asc desc]; simpl in *.
  - destruct (a <=? b) eqn:E; lia.
  - apply andb_prop in H as [H1 H2]. apply cmpop_eqb_eq in H1. subst op. simpl.
    destruct (a <=? b) eqn:E; lia.
Qed.
(** with the sign-dependent default: every call *)
Theorem sequence_exact : forall dflt, seq_cfg_exact dflt = true ->
  forall a b st, duck_sequence dflt a b st = spark_sequence a b st.
Proof.
  intros [k|op asc desc] H a b st; simpl in H; [discriminate|].
  apply andb_prop in H as [H H3]. apply andb_prop in H as [H1 H2]. apply cmpop_eqb_eq in H1. subst op.
  unfold duck_sequence, spark_sequence. destruct st as [s|]; [reflexivity|]. f_equal. simpl.
  destruct (a <=? b); lia.
Qed.
Theorem sequence_descending_default : forall k, (k =? 1) = true ->
  duck_sequence (SeqConst k) 5 1 None = [] /\ spark_sequence 5 1 None = [5; 4; 3; 2; 1].
Proof. intros k H. assert (k = 1) by lia. subst k. split; reflexivity. Qed.

(* ------------------------------------------------------------------------------------------------------------ *)
(** * date_add / date_sub with a Python int: a negative count is handed to the other function *)

Record dshift_cfg := mkDshift { ds_cmp : cmpop; ds_thr : Z; ds_mult : Z; ds_calls_other : bool }.
Definition dshift_cfg_ok (c : dshift_cfg) : bool :=
  cmpop_eqb (ds_cmp c) CLt && (ds_thr c =? 0) && (ds_mult c =? -1) && ds_calls_other c.
(** dates are day numbers; the engine's DATE + n days / DATE - n days *)
Fixpoint dshift (cadd csub : dshift_cfg) (fuel : nat) (add : bool) (d n : Z) : option Z :=
  match fuel with
  | O => None
  | S f =>
      let c := if add then cadd else csub in
      if cmp_eval (ds_cmp c) n (ds_thr c)
      then dshift cadd csub f (if ds_calls_other c then negb add else add) d (n * ds_mult c)
      else Some (if add then d + n else d - n)
  end.
Theorem date_add_sub_ok : forall cadd csub, dshift_cfg_ok cadd = true -> dshift_cfg_ok csub = true ->
  forall d n, dshift cadd csub 2 true d n = Some (d + n) /\ dshift cadd csub 2 false d n = Some (d - n).
Proof.
  intros [c1 t1 m1 o1] [c2 t2 m2 o2] H1 H2 d n. unfold dshift_cfg_ok in *; simpl in *.
  repeat (apply andb_prop in H1 as [H1 ?]). repeat (apply andb_prop in H2 as [H2 ?]).
  apply cmpop_eqb_eq in H1, H2. subst.
  assert (t1 = 0) by lia. assert (t2 = 0) by lia. assert (m1 = -1) by lia. assert (m2 = -1) by lia. subst.
  simpl. destruct (n <? 0) eqn:E.
  - assert (E' : (n * -1 <? 0) = false) by lia. rewrite E'. split; f_equal; lia.
  - split; reflexivity.
Qed.

(* ------------------------------------------------------------------------------------------------------------ *)
(** * levenshtein(l, r, threshold): CASE WHEN dist <op> threshold THEN dist ELSE else_ END *)

Record lev_cfg := mkLev { lv_cmp : cmpop; lv_else : Z; lv_else_cmp : option cmpop }.
  (* CASE WHEN dist <cmp> t THEN dist  (ELSE else | WHEN dist <else_cmp> t THEN else)  END *)
Definition lev_cfg_ok (c : lev_cfg) : bool :=
  cmpop_eqb (lv_cmp c) CLe && (lv_else c =? -1) &&
  match lv_else_cmp c with None => true | Some o => cmpop_eqb o CGt end.
Definition lev_cfg_exact (c : lev_cfg) : bool :=
  lev_cfg_ok c && match lv_else_cmp c with None => false | Some _ => true end.
Definition duck_levenshtein (c : lev_cfg) (dist : option Z) (thr : Z) : option Z :=
  case_when (option_map (fun d => cmp_eval (lv_cmp c) d thr) dist) dist
    (match lv_else_cmp c with
     | None => Some (lv_else c)
     | Some o => case_when (option_map (fun d => cmp_eval o d thr) dist) (Some (lv_else c)) None
     end).
Definition spark_levenshtein (dist : option Z) (thr : Z) : option Z :=
  option_map (fun d => if thr <? d then -1 else d) dist.
Theorem levenshtein_ok : forall c, lev_cfg_ok c = true ->
  forall d thr, duck_levenshtein c (Some d) thr = spark_levenshtein (Some d) thr.
Proof.
  intros [o e oe] H d thr. unfold lev_cfg_ok in H; simpl in H.
  apply andb_prop in H as [H H3]. apply andb_prop in H as [H1 H2].
  apply cmpop_eqb_eq in H1. subst o. assert (e = -1) by lia. subst e.
  unfold duck_levenshtein, spark_levenshtein; simpl.
  destruct oe as [o|]; [apply cmpop_eqb_eq in H3; subst o; simpl|];
    destruct (d <=? thr) eqn:E1, (thr <? d) eqn:E2; try lia; try reflexivity.
  destruct (d >? thr) eqn:E3; [reflexivity | lia].
Qed.
(** with the -1 branch guarded by its own comparison: NULL distances too *)
Theorem levenshtein_exact : forall c, lev_cfg_exact c = true ->
  forall dist thr, duck_levenshtein c dist thr = spark_levenshtein dist thr.
Proof.
  intros c H [d|] thr.
  - apply levenshtein_ok. unfold lev_cfg_exact in H. apply andb_prop in H as [H _]. exact H.
  - unfold lev_cfg_exact in H. apply andb_prop in H as [_ H]. unfold duck_levenshtein, spark_levenshtein.
    destruct (lv_else_cmp c); [reflexivity | discriminate].
Qed.
Theorem levenshtein_null : forall c, lev_cfg_ok c = true -> lv_else_cmp c = None ->
  forall thr, duck_levenshtein c None thr = Some (-1) /\ spark_levenshtein None thr = None.
Proof.
  intros [o e oe] H He thr. simpl in He. subst oe. unfold lev_cfg_ok in H; simpl in H.
  apply andb_prop in H as [H _]. apply andb_prop in H as [_ H2].
  assert (e = -1) by lia. subst e. split; reflexivity.
Qed.

(* ------------------------------------------------------------------------------------------------------------ *)
(** * unix_millis: CAST(unix_seconds(col) * mult AS BIGINT); a timestamp is its microseconds since the epoch *)

Inductive millis_cfg :=
| MillisFromSeconds (mult : Z)        (* CAST(unix_seconds(col) * mult AS BIGINT) *)
| MillisEpochMs.                      (* EPOCH_MS(col) *)
(** whole seconds between the epoch and the timestamp (DATE_DIFF('SECONDS', epoch, ts)) *)
Definition duck_unix_seconds (us : Z) : Z := us / 1000000.
(** DuckDB epoch_ms(ts): the microsecond count divided by 1000, truncated toward zero *)
Definition duck_epoch_ms (us : Z) : Z := Z.quot us 1000.
Definition duck_unix_millis (c : millis_cfg) (us : Z) : Z :=
  match c with MillisFromSeconds mult => duck_unix_seconds us * mult | MillisEpochMs => duck_epoch_ms us end.
Definition spark_unix_millis (us : Z) : Z := us / 1000.
Definition millis_cfg_ok (c : millis_cfg) : bool := match c with MillisFromSeconds m => m =? 1000 | MillisEpochMs => true end.
Definition millis_cfg_exact (c : millis_cfg) : bool := match c with MillisEpochMs => true | _ => false end.
Theorem unix_millis_ok : forall c, millis_cfg_ok c = true ->
  forall us, us mod 1000000 = 0 -> duck_unix_millis c us = spark_unix_millis us.
Proof.
  intros [mult|] H us Hm; simpl in H.
  - assert (mult = 1000) by lia. subst mult.
    unfold duck_unix_millis, duck_unix_seconds, spark_unix_millis.
    pose proof (Z.div_mod us 1000000 ltac:(lia)) as E. rewrite Hm in E.
    generalize dependent (us / 1000000). intros q E. subst us.
    replace (1000000 * q + 0) with (q * 1000 * 1000) by lia. rewrite Z.div_mul by lia. reflexivity.
  - unfold duck_unix_millis, duck_epoch_ms, spark_unix_millis.
    pose proof (Z.div_mod us 1000000 ltac:(lia)) as E. rewrite Hm in E.
    generalize dependent (us / 1000000). intros q E. subst us.
    replace (1000000 * q + 0) with (q * 1000 * 1000) by lia. rewrite Z.div_mul, Z.quot_mul by lia. reflexivity.
Qed.
(** EPOCH_MS: every timestamp at or after the epoch, and every timestamp on a whole millisecond *)
Theorem unix_millis_exact : forall c, millis_cfg_exact c = true ->
  forall us, (0 <= us \/ us mod 1000 = 0) -> duck_unix_millis c us = spark_unix_millis us.
Proof.
  intros [mult|] H us D; [discriminate|]. unfold duck_unix_millis, duck_epoch_ms, spark_unix_millis.
  destruct D as [D|D].
  - apply Z.quot_div_nonneg; lia.
  - pose proof (Z.div_mod us 1000 ltac:(lia)) as E. rewrite D in E.
    generalize dependent (us / 1000). intros q E. subst us.
    replace (1000 * q + 0) with (q * 1000) by lia. rewrite Z.quot_mul by lia. reflexivity.
Qed.
Theorem unix_millis_drops_fraction : forall mult, (mult =? 1000) = true ->
  duck_unix_millis (MillisFromSeconds mult) 1706708710123456 = 1706708710000 /\ spark_unix_millis 1706708710123456 = 1706708710123.
Proof. intros mult H. assert (mult = 1000) by lia. subst mult. split; reflexivity. Qed.
