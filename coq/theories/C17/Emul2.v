(** C17, second part: the guards and re-basings added around the emulations of Emul.v by the round-3 repairs, and the
    new small emulations (concat / overlay glued with ||, array_append, left / right, trunc unit spellings).
    Same conventions as Emul.v: the part of the shape the source decides is a configuration regenerated from /repo
    (Gen.C17Facts); [duck_* cfg] is DuckDB's value of the expression sqlframe builds; [spark_*] is Spark 3.5's value;
    one theorem per emulation; engine primitives are definitions validated by the correspondence of checks/c17.py. *)
From Coq Require Import ZArith List Bool Lia ZifyBool Permutation.
From Coq Require Import Ascii String.
From SF Require Import C17.Emul.
Import ListNotations.
Open Scope Z_scope.

(* ------------------------------------------------------------------------------------------------------------ *)
(** * slice with a start of either sign:
      first = CASE WHEN start < 0 THEN a*size + b*start + k ELSE start END;
      CASE WHEN first < below THEN [] ELSE LIST_SLICE(x, lo(first, length), hi(first, length)) END *)

Inductive slice_rebase := NoRebase | Rebase (a b k below : Z).
Definition slice_rebase_exact (r : slice_rebase) : bool :=
  match r with Rebase a b k below => (a =? 1) && (b =? 1) && (k =? 1) && (below =? 1) | NoRebase => false end.

Section Slice2.
  Context {A : Type}.
  Definition duck_slice2 (r : slice_rebase) (c : slice_cfg) (l : list A) (s n : Z) : list A :=
    match r with
    | NoRebase => duck_slice c l s n
    | Rebase a b k below =>
        let first := if s <? 0 then a * Z.of_nat (List.length l) + b * s + k else s in
        if first <? below then [] else duck_slice c l first n
    end.
  (** Spark slice(l, start, length), start <> 0: a negative start counts from the end; a start outside the array gives [] *)
  Definition spark_slice_gen (l : list A) (s n : Z) : list A :=
    let first := if s <? 0 then Z.of_nat (List.length l) + s + 1 else s in
    if first <? 1 then [] else spark_slice l first n.

  Lemma spark_slice_gen_positive : forall l s n, 1 <= s -> spark_slice_gen l s n = spark_slice l s n.
  Proof.
    intros l s n Hs. unfold spark_slice_gen. destruct (s <? 0) eqn:E; [lia|]. destruct (s <? 1) eqn:E2; [lia | reflexivity].
  Qed.

  Theorem slice_exact : forall r c, slice_rebase_exact r = true -> slice_cfg_ok c = true ->
    forall l s n, s <> 0 -> 0 <= n -> duck_slice2 r c l s n = spark_slice_gen l s n.
  Proof.
    intros [|a b k below] c Hr Hc l s n Hs Hn; [discriminate|]. simpl in Hr.
    repeat (apply andb_prop in Hr as [Hr ?]).
    assert (a = 1) by lia. assert (b = 1) by lia. assert (k = 1) by lia. assert (below = 1) by lia. subst.
    unfold duck_slice2, spark_slice_gen.
    replace (1 * Z.of_nat (List.length l) + 1 * s + 1) with (Z.of_nat (List.length l) + s + 1) by lia.
    destruct ((if s <? 0 then Z.of_nat (List.length l) + s + 1 else s) <? 1) eqn:E; [reflexivity|].
    apply slice_ok; [exact Hc | | exact Hn]. destruct (s <? 0); lia.
  Qed.

  (** without the re-basing only positive starts are right (LIST_SLICE clamps a start before the first element) *)
  Theorem slice_positive_only : forall c, slice_cfg_ok c = true ->
    forall l s n, 1 <= s -> 0 <= n -> duck_slice2 NoRebase c l s n = spark_slice_gen l s n.
  Proof. intros c Hc l s n Hs Hn. rewrite spark_slice_gen_positive by exact Hs. apply slice_ok; assumption. Qed.
End Slice2.

(* ------------------------------------------------------------------------------------------------------------ *)
(** * factorial with the range guard CASE WHEN lo <= v AND v <= hi THEN FACTORIAL(v) END *)

Definition duck_factorial2 (g : option (Z * Z)) (c : fact_cfg) (n : Z) : option Z :=
  match g with
  | None => duck_factorial c n
  | Some (lo, hi) => if (lo <=? n) && (n <=? hi) then duck_factorial c n else None
  end.
Definition fact_guard_exact (g : option (Z * Z)) : bool :=
  match g with Some (lo, hi) => (lo =? 0) && (hi =? 20) | None => false end.
Theorem factorial_exact : forall g c, fact_guard_exact g = true -> fact_cfg_ok c = true ->
  forall n, duck_factorial2 g c n = spark_factorial n.
Proof.
  intros [[lo hi]|] c Hg Hc n; [|discriminate]. simpl in Hg. apply andb_prop in Hg as [H1 H2].
  assert (lo = 0) by lia. assert (hi = 20) by lia. subst. unfold duck_factorial2.
  destruct ((0 <=? n) && (n <=? 20)) eqn:E.
  - apply factorial_ok; [exact Hc | lia].
  - unfold spark_factorial. rewrite E. reflexivity.
Qed.
Theorem factorial_unguarded_beyond_20 : forall c, fact_cfg_ok c = true ->
  duck_factorial2 None c 21 = Some 51090942171709440000 /\ spark_factorial 21 = None.
Proof.
  intros [p t] H. unfold fact_cfg_ok in H; simpl in H. apply andb_prop in H as [-> Ht].
  split; [|reflexivity]. unfold duck_factorial2, duck_factorial; simpl. destruct t; try discriminate; reflexivity.
Qed.

(* ------------------------------------------------------------------------------------------------------------ *)
(** * NULL arguments of the array functions: CASE WHEN a IS NOT NULL [AND b IS NOT NULL] THEN f(a, b) END *)

Definition guard1 {T U} (guarded : bool) (f : option T -> option U) (a : option T) : option U :=
  if guarded then match a with None => None | Some _ => f a end else f a.

(** LIST_APPEND(l, v): a NULL list counts as empty *)
Definition duck_list_append (l : option (list Z)) (v : Z) : option (list Z) :=
  Some (match l with Some l => l | None => [] end ++ [v]).
Definition duck_array_append (guarded : bool) (l : option (list Z)) (v : Z) : option (list Z) :=
  guard1 guarded (fun l => duck_list_append l v) l.
Definition spark_array_append (l : option (list Z)) (v : Z) : option (list Z) := option_map (fun l => l ++ [v]) l.
Theorem array_append_exact : forall l v, duck_array_append true l v = spark_array_append l v.
Proof. intros [l|] v; reflexivity. Qed.
Theorem array_append_unguarded_null : forall v, duck_array_append false None v = Some [v] /\ spark_array_append None v = None.
Proof. intro v. split; reflexivity. Qed.

Section Union2.
  Variable dist : list Z -> list Z.
  Hypothesis dist_nodup : forall l, NoDup (dist l).
  Hypothesis dist_in : forall l x, In x (dist l) <-> In x l.
  (** LIST_CONCAT skips a NULL list *)
  Definition duck_array_union2 (guarded : bool) (c : union_cfg) (a b : option (list Z)) : option (list Z) :=
    let unguarded := Some (duck_array_union dist c (match a with Some a => a | None => [] end)
                                                    (match b with Some b => b | None => [] end)) in
    if guarded then match a, b with Some _, Some _ => unguarded | _, _ => None end else unguarded.
  Definition spark_array_union2 (a b : option (list Z)) : option (list Z) :=
    match a, b with Some a, Some b => Some (spark_array_union a b) | _, _ => None end.
  Definition opt_perm (x y : option (list Z)) : Prop :=
    match x, y with Some x, Some y => Permutation x y | None, None => True | _, _ => False end.
  Theorem array_union_exact : forall c, union_cfg_ok c = true ->
    forall a b, opt_perm (duck_array_union2 true c a b) (spark_array_union2 a b).
  Proof.
    intros c H [a|] [b|]; simpl; try exact I. apply (array_union_ok dist dist_nodup dist_in c H).
  Qed.
End Union2.

(* ------------------------------------------------------------------------------------------------------------ *)
(** * strings glued with CONCAT(..) or with ||  (concat, overlay) *)

Inductive glue := GlueConcat | GluePipes.
Definition ostr := option (list Z).           (* a nullable string as its code points *)
(** DuckDB: CONCAT skips NULL arguments; a || b is NULL as soon as one operand is *)
Definition duck_glue (g : glue) (parts : list ostr) : ostr :=
  match g with
  | GlueConcat => Some (flat_map (fun p => match p with Some s => s | None => [] end) parts)
  | GluePipes => fold_right (fun p acc => match p, acc with Some s, Some t => Some (s ++ t) | _, _ => None end) (Some []) parts
  end.
(** Spark concat: NULL if any argument is *)
Definition spark_concat (parts : list ostr) : ostr :=
  if forallb (fun p => match p with Some _ => true | None => false end) parts
  then Some (flat_map (fun p => match p with Some s => s | None => [] end) parts) else None.
Theorem concat_exact : forall parts, duck_glue GluePipes parts = spark_concat parts.
Proof.
  induction parts as [|p t IH]; [reflexivity|]. unfold duck_glue, spark_concat in *.
  cbn [fold_right forallb flat_map]. rewrite IH.
  destruct p as [s|]; [|reflexivity]. cbn [andb].
  destruct (forallb (fun p => match p with Some _ => true | None => false end) t); reflexivity.
Qed.
Theorem concat_function_skips_null : duck_glue GlueConcat [Some [104]; None] = Some [104] /\ spark_concat [Some [104]; None] = None.
Proof. split; reflexivity. Qed.
Theorem concat_no_nulls : forall g parts, forallb (fun p => match p with Some _ => true | None => false end) parts = true ->
  duck_glue g parts = spark_concat parts.
Proof.
  intros [|] parts H; [|apply concat_exact]. unfold spark_concat. rewrite H. reflexivity.
Qed.

(** overlay on nullable strings: the three parts of Emul.duck_overlay, glued *)
Definition duck_overlay2 (g : glue) (c : overlay_cfg) (s r : ostr) (pos len : Z) : ostr :=
  match s, r with
  | Some s', Some r' =>
      if overlay_cfg_ok c then Some (duck_overlay c s' r' pos len) else None
  | _, _ =>
      (* SUBSTRING(NULL, ..) is NULL; the glue decides what a NULL part does *)
      duck_glue g [option_map (fun x => x) (match s with Some _ => Some [] | None => None end); r;
                   match s with Some _ => Some [] | None => None end]
  end.
Definition spark_overlay2 (s r : ostr) (pos len : Z) : ostr :=
  match s, r with Some s', Some r' => Some (spark_overlay s' r' pos len) | _, _ => None end.
Theorem overlay_exact : forall c, overlay_cfg_ok c = true ->
  forall s r pos len, 1 <= pos -> 0 <= len -> duck_overlay2 GluePipes c s r pos len = spark_overlay2 s r pos len.
Proof.
  intros c H [s|] [r|] pos len Hp Hl; unfold duck_overlay2, spark_overlay2; try reflexivity.
  rewrite H. f_equal. apply overlay_ok; assumption.
Qed.
Theorem overlay_concat_null : duck_overlay2 GlueConcat (mkOverlay 1 (1, 0, -1) (1, 1, 0) true) None None 2 3 = Some []
                              /\ spark_overlay2 None None 2 3 = None.
Proof. split; reflexivity. Qed.

(* ------------------------------------------------------------------------------------------------------------ *)
(** * left / right with LEFT(s, GREATEST(len, floor)) *)

Section LeftRight.
  Context {A : Type}.
  (** DuckDB LEFT(s, n): the first n elements for n >= 0, all but the last -n for n < 0 (RIGHT symmetrically) *)
  Definition duck_left_prim (s : list A) (n : Z) : list A :=
    if 0 <=? n then firstn (Z.to_nat n) s else firstn (List.length s - Z.to_nat (- n)) s.
  Definition duck_right_prim (s : list A) (n : Z) : list A :=
    if 0 <=? n then skipn (List.length s - Z.to_nat n) s else skipn (Z.to_nat (- n)) s.
  Definition floor_len (fl : option Z) (n : Z) : Z := match fl with Some k => Z.max n k | None => n end.
  Definition duck_left (fl : option Z) (s : list A) (n : Z) := duck_left_prim s (floor_len fl n).
  Definition duck_right (fl : option Z) (s : list A) (n : Z) := duck_right_prim s (floor_len fl n).
  (** Spark left / right: the empty string for a length <= 0 *)
  Definition spark_left (s : list A) (n : Z) : list A := if n <=? 0 then [] else firstn (Z.to_nat n) s.
  Definition spark_right (s : list A) (n : Z) : list A := if n <=? 0 then [] else skipn (List.length s - Z.to_nat n) s.
  Definition floor_exact (fl : option Z) : bool := match fl with Some k => k =? 0 | None => false end.

  Theorem left_right_exact : forall fl, floor_exact fl = true ->
    forall s n, duck_left fl s n = spark_left s n /\ duck_right fl s n = spark_right s n.
  Proof.
    intros [k|] H s n; [|discriminate]. simpl in H. assert (k = 0) by lia. subst k.
    unfold duck_left, duck_right, floor_len, duck_left_prim, duck_right_prim, spark_left, spark_right.
    destruct (0 <=? Z.max n 0) eqn:E; [|lia]. destruct (n <=? 0) eqn:E2.
    - replace (Z.max n 0) with 0 by lia. simpl. split; [reflexivity|].
      rewrite Nat.sub_0_r. apply skipn_all.
    - replace (Z.max n 0) with n by lia. split; reflexivity.
  Qed.
  Theorem left_right_nonnegative : forall s n, 0 <= n ->
    duck_left None s n = spark_left s n /\ duck_right None s n = spark_right s n.
  Proof.
    intros s n Hn. unfold duck_left, duck_right, floor_len, duck_left_prim, duck_right_prim, spark_left, spark_right.
    destruct (0 <=? n) eqn:E; [|lia]. destruct (n <=? 0) eqn:E2; [|split; reflexivity].
    assert (n = 0) by lia. subst n. simpl. split; [reflexivity|]. rewrite Nat.sub_0_r. apply skipn_all.
  Qed.
End LeftRight.

(* ------------------------------------------------------------------------------------------------------------ *)
(** * substr(s, pos, len) with a position re-mapping  CASE WHEN pos = k0 THEN k1 ELSE pos END *)

Section Substr.
  Context {A : Type}.
  (** DuckDB SUBSTRING(s, p, n) for 0 <= p, 0 <= n: the characters at the positions p .. p+n-1 that exist (the first
      character is at position 1, so position 0 costs one character) *)
  Definition duck_substring_prim (s : list A) (p n : Z) : list A :=
    firstn (Z.to_nat (p + n - Z.max p 1)) (skipn (Z.to_nat (Z.max p 1 - 1)) s).
  Definition remap_pos (rm : option (Z * Z)) (p : Z) : Z :=
    match rm with Some (k0, k1) => if p =? k0 then k1 else p | None => p end.
  Definition duck_substr (rm : option (Z * Z)) (s : list A) (p n : Z) : list A := duck_substring_prim s (remap_pos rm p) n.
  (** Spark substr for 0 <= pos: position 0 is read as position 1 *)
  Definition spark_substr (s : list A) (p n : Z) : list A := firstn (Z.to_nat n) (skipn (Z.to_nat (Z.max p 1 - 1)) s).
  Definition remap_exact (rm : option (Z * Z)) : bool := match rm with Some (k0, k1) => (k0 =? 0) && (k1 =? 1) | None => false end.

  Theorem substr_exact : forall rm, remap_exact rm = true ->
    forall s p n, 0 <= p -> 0 <= n -> duck_substr rm s p n = spark_substr s p n.
  Proof.
    intros [[k0 k1]|] H s p n Hp Hn; [|discriminate]. simpl in H. apply andb_prop in H as [H0 H1].
    assert (k0 = 0) by lia. assert (k1 = 1) by lia. subst.
    unfold duck_substr, remap_pos, duck_substring_prim, spark_substr.
    destruct (p =? 0) eqn:E.
    - assert (p = 0) by lia. subst p.
      replace (Z.max 1 1) with 1 by lia. replace (Z.max 0 1) with 1 by lia. replace (1 + n - 1) with n by lia. reflexivity.
    - replace (Z.max p 1) with p by lia. replace (p + n - p) with n by lia. reflexivity.
  Qed.
  Theorem substr_positive : forall s p n, 1 <= p -> 0 <= n -> duck_substr None s p n = spark_substr s p n.
  Proof.
    intros s p n Hp Hn. unfold duck_substr, remap_pos, duck_substring_prim, spark_substr.
    replace (Z.max p 1) with p by lia. replace (p + n - p) with n by lia. reflexivity.
  Qed.
End Substr.

(* ------------------------------------------------------------------------------------------------------------ *)
(** * trunc / date_trunc: spellings of the unit *)

Inductive tunit := UYear | UQuarter | UMonth | UWeek | UDay | UHour | UMinute | USecond.
Definition tunit_eqb (a b : tunit) : bool :=
  match a, b with
  | UYear, UYear | UQuarter, UQuarter | UMonth, UMonth | UWeek, UWeek | UDay, UDay | UHour, UHour | UMinute, UMinute
  | USecond, USecond => true | _, _ => false end.
Open Scope string_scope.
(** Spark 3.5 (DateTimeUtils.parseTruncLevel), lower-cased *)
Definition spark_unit (s : string) : option tunit :=
  if (s =? "year") || (s =? "yyyy") || (s =? "yy") then Some UYear
  else if s =? "quarter" then Some UQuarter
  else if (s =? "month") || (s =? "mon") || (s =? "mm") then Some UMonth
  else if s =? "week" then Some UWeek
  else if (s =? "day") || (s =? "dd") then Some UDay
  else if s =? "hour" then Some UHour
  else if s =? "minute" then Some UMinute
  else if s =? "second" then Some USecond
  else None.
(** the spellings DuckDB's date_trunc understands among these (lower-cased) *)
Definition duck_unit (s : string) : option tunit :=
  if s =? "year" then Some UYear else if s =? "quarter" then Some UQuarter
  else if (s =? "month") || (s =? "mon") then Some UMonth else if s =? "week" then Some UWeek
  else if s =? "day" then Some UDay else if s =? "hour" then Some UHour else if s =? "minute" then Some UMinute
  else if s =? "second" then Some USecond else None.
Fixpoint lookup (t : list (string * string)) (s : string) : string :=
  match t with [] => s | (k, v) :: r => if k =? s then v else lookup r s end.
Definition spark_spellings : list string :=
  ["year"; "yyyy"; "yy"; "quarter"; "month"; "mon"; "mm"; "week"; "day"; "dd"; "hour"; "minute"; "second"].
Definition ounit_eqb (a b : option tunit) : bool :=
  match a, b with Some x, Some y => tunit_eqb x y | None, None => true | _, _ => false end.
(** every spelling Spark accepts reaches DuckDB as a spelling DuckDB reads as the same unit *)
Definition units_table_ok (t : list (string * string)) : bool :=
  forallb (fun s => ounit_eqb (duck_unit (lookup t s)) (spark_unit s)) spark_spellings.
Theorem trunc_units_exact : forall t, units_table_ok t = true ->
  forall s, In s spark_spellings -> duck_unit (lookup t s) = spark_unit s.
Proof.
  intros t H s Hs. unfold units_table_ok in H. rewrite forallb_forall in H. specialize (H s Hs).
  destruct (duck_unit (lookup t s)) as [x|], (spark_unit s) as [y|]; simpl in H; try discriminate; [|reflexivity].
  f_equal. destruct x, y; simpl in H; try discriminate; reflexivity.
Qed.
Example units_without_table_misses : units_table_ok [] = false.
Proof. vm_compute. reflexivity. Qed.

(* ------------------------------------------------------------------------------------------------------------ *)
(** * soundex: sqlframe.base.util.soundex (pure Python, registered as the UDF SOUNDEX on DuckDB) against Spark's
      UTF8String.soundex.  Strings are lists of code points; the theorem is about ASCII strings that start with a letter
      (for any other first character Spark returns its input unchanged, which the Python function does not do). *)
Close Scope string_scope.
Open Scope Z_scope.

Inductive sxclass := SxCoded (code : Z) | SxTransparent | SxReset.
Definition oz_is (o : option Z) (k : Z) : bool := match o with Some x => x =? k | None => false end.
(** the loop both implementations run over the characters after the first: a coded letter is appended unless it repeats the
    last code; a transparent letter leaves the last code alone; anything else forgets it; stop at four characters *)
Fixpoint sx_loop (cl : Z -> sxclass) (rest : list Z) (last : option Z) (count : nat) (acc : list Z) : list Z :=
  match rest with
  | [] => acc
  | c :: r =>
      match cl c with
      | SxCoded sub =>
          if oz_is last sub then sx_loop cl r (Some sub) count acc
          else if Nat.eqb (S count) 4 then acc ++ [sub] else sx_loop cl r (Some sub) (S count) (acc ++ [sub])
      | SxTransparent => sx_loop cl r last count acc
      | SxReset => sx_loop cl r None count acc
      end
  end.
Definition sx_pad (l : list Z) : list Z := l ++ repeat 48 (4 - List.length l).
Definition ascii_upper (c : Z) : Z := if (97 <=? c) && (c <=? 122) then c - 32 else c.
Definition is_upper_letter (c : Z) : bool := (65 <=? c) && (c <=? 90).

(** ---- sqlframe's function, parametrised by what the source decides: the replacement table and the letters that are
         skipped without forgetting the last code ---- *)
Record soundex_cfg := mkSoundex { sx_table : list (list Z * Z); sx_transparent : list Z; sx_nonletter_first_unchanged : bool }.
  (* the last field: `if not 'A' <= s[0] <= 'Z': return <the original string>` after upper-casing *)
Fixpoint sx_code_of (t : list (list Z * Z)) (c : Z) : option Z :=
  match t with [] => None | (letters, code) :: r => if existsb (Z.eqb c) letters then Some code else sx_code_of r c end.
Definition sx_classify_duck (cfg : soundex_cfg) (c : Z) : sxclass :=
  match sx_code_of (sx_table cfg) c with
  | Some code => SxCoded code
  | None => if existsb (Z.eqb c) (sx_transparent cfg) then SxTransparent else SxReset
  end.
Definition duck_soundex (cfg : soundex_cfg) (s : list Z) : list Z :=
  match map ascii_upper s with
  | [] => []
  | f :: rest =>
      if sx_nonletter_first_unchanged cfg && negb (is_upper_letter f) then s
      else sx_pad (sx_loop (sx_classify_duck cfg) rest (sx_code_of (sx_table cfg) f) 1 [f])
  end.

(** ---- Spark (UTF8String.soundex, US_ENGLISH_MAPPING): code '0' for A E I O U Y, '7' for H W ---- *)
Definition spark_mapping (u : Z) : Z :=      (* u an upper-case letter; the digit character of its code *)
  nth (Z.to_nat (u - 65)) [48; 49; 50; 51; 48; 49; 50; 55; 48; 50; 50; 52; 53; 53; 48; 49; 50; 54; 50; 51; 48; 49; 55; 50; 48; 50] 48.
Definition sx_classify_spark (c : Z) : sxclass :=
  let u := ascii_upper c in
  if is_upper_letter u then
    (if spark_mapping u =? 55 then SxTransparent else if spark_mapping u =? 48 then SxReset else SxCoded (spark_mapping u))
  else SxReset.
Definition spark_soundex (s : list Z) : list Z :=
  match s with
  | [] => []
  | b :: rest =>
      let u := ascii_upper b in
      if is_upper_letter u
      then sx_pad (sx_loop sx_classify_spark rest (if spark_mapping u =? 48 then None else Some (spark_mapping u)) 1 [u])
      else s
  end.

Definition soundex_std : soundex_cfg :=
  mkSoundex [([66; 70; 80; 86], 49); ([67; 71; 74; 75; 81; 83; 88; 90], 50); ([68; 84], 51); ([76], 52); ([77; 78], 53); ([82], 54)]
            [72; 87] true.
Fixpoint lz_eqb (a b : list Z) : bool :=
  match a, b with [], [] => true | x :: a', y :: b' => (x =? y) && lz_eqb a' b' | _, _ => false end.
Lemma lz_eqb_eq : forall a b, lz_eqb a b = true -> a = b.
Proof. induction a as [|x a IH]; destruct b as [|y b]; simpl; intro H; try discriminate; [reflexivity|].
       apply andb_prop in H as [H1 H2]. f_equal; [lia | apply IH; exact H2]. Qed.
Fixpoint tbl_eqb (a b : list (list Z * Z)) : bool :=
  match a, b with
  | [], [] => true
  | (l1, c1) :: a', (l2, c2) :: b' => lz_eqb l1 l2 && (c1 =? c2) && tbl_eqb a' b'
  | _, _ => false
  end.
Lemma tbl_eqb_eq : forall a b, tbl_eqb a b = true -> a = b.
Proof.
  induction a as [|[l1 c1] a IH]; destruct b as [|[l2 c2] b]; simpl; intro H; try discriminate; [reflexivity|].
  apply andb_prop in H as [H H3]. apply andb_prop in H as [H1 H2]. apply lz_eqb_eq in H1.
  f_equal; [f_equal; [exact H1 | lia] | apply IH; exact H3].
Qed.
Definition soundex_cfg_ok (c : soundex_cfg) : bool :=
  tbl_eqb (sx_table c) (sx_table soundex_std) && lz_eqb (sx_transparent c) (sx_transparent soundex_std).
Definition soundex_cfg_exact (c : soundex_cfg) : bool := soundex_cfg_ok c && sx_nonletter_first_unchanged c.

(** the two classifications agree on every character (the Python side sees the upper-cased character) *)
Definition letters52 : list Z := map Z.of_nat (seq 65 26 ++ seq 97 26).
Definition sxclass_eqb (a b : sxclass) : bool :=
  match a, b with SxCoded x, SxCoded y => x =? y | SxTransparent, SxTransparent | SxReset, SxReset => true | _, _ => false end.
Lemma classify_sweep : forallb (fun c => sxclass_eqb (sx_classify_duck soundex_std (ascii_upper c)) (sx_classify_spark c)) letters52 = true.
Proof. vm_compute. reflexivity. Qed.
Lemma sxclass_eqb_eq : forall a b, sxclass_eqb a b = true -> a = b.
Proof. destruct a, b; simpl; intro H; try discriminate; try reflexivity. f_equal. lia. Qed.

Lemma classify_agree : forall c, sx_classify_duck soundex_std (ascii_upper c) = sx_classify_spark c.
Proof.
  intro c.
  destruct ((65 <=? c) && (c <=? 90) || (97 <=? c) && (c <=? 122)) eqn:L.
  - apply sxclass_eqb_eq.
    assert (Hin : In c letters52).
    { unfold letters52. replace c with (Z.of_nat (Z.to_nat c)) by lia. apply in_map. apply in_or_app.
      destruct ((65 <=? c) && (c <=? 90)) eqn:U; [left | right]; apply in_seq; lia. }
    exact (proj1 (forallb_forall _ _) classify_sweep c Hin).
  - (* not a letter: both forget the last code *)
    assert (Hu : ascii_upper c = c) by (unfold ascii_upper; destruct ((97 <=? c) && (c <=? 122)) eqn:E; [lia | reflexivity]).
    unfold sx_classify_spark. rewrite Hu. unfold is_upper_letter.
    destruct ((65 <=? c) && (c <=? 90)) eqn:E; [lia|].
    unfold sx_classify_duck, soundex_std; cbn [sx_table sx_transparent sx_code_of existsb].
    repeat match goal with |- context [c =? ?k] => let Ek := fresh "Ek" in destruct (c =? k) eqn:Ek; [lia|]; clear Ek end.
    reflexivity.
Qed.

Lemma sx_loop_ext : forall cl1 cl2 f, (forall c, cl1 (f c) = cl2 c) ->
  forall rest last count acc, sx_loop cl1 (map f rest) last count acc = sx_loop cl2 rest last count acc.
Proof.
  intros cl1 cl2 f H. induction rest as [|c r IH]; intros last count acc; [reflexivity|].
  cbn [map sx_loop]. rewrite H. destruct (cl2 c) as [sub| |]; try apply IH.
  destruct (oz_is last sub); [apply IH|]. destruct (Nat.eqb (S count) 4); [reflexivity | apply IH].
Qed.

(** a remembered code 7 (Spark's H / W as FIRST letter) behaves like no remembered code: no letter is coded 7 *)
Lemma sx_loop_last7 : forall rest count acc,
  sx_loop sx_classify_spark rest (Some 55) count acc = sx_loop sx_classify_spark rest None count acc.
Proof.
  induction rest as [|c r IH]; intros count acc; [reflexivity|]. cbn [sx_loop].
  destruct (sx_classify_spark c) as [sub| |] eqn:E; [|apply IH|reflexivity].
  assert (sub <> 55).
  { unfold sx_classify_spark in E. destruct (is_upper_letter (ascii_upper c)); [|discriminate].
    destruct (spark_mapping (ascii_upper c) =? 55) eqn:E7; [discriminate|].
    destruct (spark_mapping (ascii_upper c) =? 48); [discriminate|]. injection E as <-. lia. }
  unfold oz_is. destruct (55 =? sub) eqn:E2; [lia | reflexivity].
Qed.

Definition starts_with_letter (s : list Z) : bool :=
  match s with [] => true | b :: _ => is_upper_letter (ascii_upper b) end.

Lemma classify_duck_std : forall t tr g c, t = sx_table soundex_std -> tr = sx_transparent soundex_std ->
  sx_classify_duck (mkSoundex t tr g) c = sx_classify_duck soundex_std c.
Proof. intros t tr g c -> ->. reflexivity. Qed.

Theorem soundex_ok : forall cfg, soundex_cfg_ok cfg = true ->
  forall s, starts_with_letter s = true -> duck_soundex cfg s = spark_soundex s.
Proof.
  intros [t tr g] H s Hs. unfold soundex_cfg_ok in H; cbn [sx_table sx_transparent] in H. apply andb_prop in H as [H1 H2].
  apply tbl_eqb_eq in H1. apply lz_eqb_eq in H2.
  destruct s as [|b rest]; [reflexivity|]. simpl in Hs.
  unfold duck_soundex, spark_soundex. cbn [map sx_nonletter_first_unchanged sx_table]. rewrite Hs.
  rewrite andb_false_r. f_equal.
  rewrite (sx_loop_ext (sx_classify_duck (mkSoundex t tr g)) sx_classify_spark ascii_upper
             (fun c => eq_trans (classify_duck_std t tr g (ascii_upper c) H1 H2) (classify_agree c))).
  subst t.
  (* the code remembered for the first letter *)
  pose proof (classify_agree b) as Hb. unfold sx_classify_duck, sx_classify_spark in Hb. rewrite Hs in Hb.
  destruct (sx_code_of (sx_table soundex_std) (ascii_upper b)) as [code|] eqn:Ec.
  - destruct (spark_mapping (ascii_upper b) =? 55); [discriminate|].
    destruct (spark_mapping (ascii_upper b) =? 48); [discriminate|]. injection Hb as ->. reflexivity.
  - destruct (spark_mapping (ascii_upper b) =? 55) eqn:E7.
    + assert (spark_mapping (ascii_upper b) = 55) by lia.
      destruct (spark_mapping (ascii_upper b) =? 48) eqn:E0; [lia|]. rewrite H. symmetry. apply sx_loop_last7.
    + destruct (spark_mapping (ascii_upper b) =? 48); [reflexivity|].
      destruct (existsb (Z.eqb (ascii_upper b)) (sx_transparent soundex_std)); discriminate.
Qed.

(** with the early return for a first character that is not a letter: every string *)
Theorem soundex_exact : forall cfg, soundex_cfg_exact cfg = true -> forall s, duck_soundex cfg s = spark_soundex s.
Proof.
  intros cfg H s. unfold soundex_cfg_exact in H. apply andb_prop in H as [Hok Hg].
  destruct (starts_with_letter s) eqn:Hs; [exact (soundex_ok cfg Hok s Hs)|].
  destruct s as [|b rest]; [discriminate|]. simpl in Hs.
  unfold duck_soundex, spark_soundex. cbn [map]. rewrite Hg, Hs. reflexivity.
Qed.

(** without the H / W rule (transparent = []) Ashcraft is coded A226 instead of A261 *)
Theorem soundex_without_hw_rule :
  duck_soundex (mkSoundex (sx_table soundex_std) [] true) [65; 115; 104; 99; 114; 97; 102; 116] = [65; 50; 50; 54]
  /\ spark_soundex [65; 115; 104; 99; 114; 97; 102; 116] = [65; 50; 54; 49].
Proof. split; vm_compute; reflexivity. Qed.
