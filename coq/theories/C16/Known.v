(** C16 -- the probe names of the theorem and the list of known defects of the unchanged tree (static; does not
    depend on /repo).  Shared by props/C16.v (the theorem is stated over the complement) and props/C16_refuted.v
    (every listed key is refuted by the model). *)
From Coq Require Import String List ZArith. Import ListNotations. Open Scope string_scope.

(** the theorem is checked for these probe names (the finite bound of the statement) *)
Definition probe_names : list string := ["c"; "zz9"].

(** genuine defects of the unchanged tree (findings/C16.known.json): the theorem is stated over the complement *)
Definition C16_known : list (string * string * nat) := [
  ("array_repeat", "databricks", 1%nat);
  ("array_repeat", "redshift", 1%nat);
  ("array_repeat", "spark", 1%nat);
  ("array_repeat", "standalone", 1%nat);
  ("date_sub", "snowflake", 1%nat);
  ("log1p", "bigquery", 0%nat);
  ("log1p", "duckdb", 0%nat);
  ("log1p", "postgres", 0%nat);
  ("log1p", "snowflake", 0%nat);
  ("overlay", "databricks", 2%nat);
  ("overlay", "databricks", 3%nat);
  ("overlay", "postgres", 2%nat);
  ("overlay", "postgres", 3%nat);
  ("overlay", "redshift", 2%nat);
  ("overlay", "redshift", 3%nat);
  ("overlay", "spark", 2%nat);
  ("overlay", "spark", 3%nat);
  ("overlay", "standalone", 2%nat);
  ("overlay", "standalone", 3%nat);
  ("slice", "bigquery", 1%nat);
  ("slice", "bigquery", 2%nat);
  ("slice", "duckdb", 1%nat);
  ("slice", "duckdb", 2%nat);
  ("slice", "postgres", 1%nat);
  ("slice", "postgres", 2%nat);
  ("slice", "snowflake", 1%nat);
  ("slice", "snowflake", 2%nat)
].

