(** C16 -- the probe names of the theorem and the list of known (unrepaired) defects (static; does not depend on
    /repo).  Shared by props/C16.v (the theorem is stated over the complement) and props/C16_refuted.v (every listed
    key is refuted by the model).

    The 27 keys found on the original tree (log1p x4, slice x8, array_repeat x4, overlay x10, date_sub x1) were
    repaired in /repo (commits 149f416, 696553d, 299ac48, dcac97a, 99aad65; findings/C16.known.json, status fixed):
    nothing is excluded from the theorem any more.  Their replay files stay as corpus cases (props/C16.v
    [C16_repaired], checks/c16.py). *)
From Coq Require Import String List ZArith. Import ListNotations. Open Scope string_scope.

(** the theorem is checked for these probe names (the finite bound of the statement) *)
Definition probe_names : list string := ["c"; "zz9"].

(** genuine defects still present in the tree: none *)
Definition C16_known : list (string * string * nat) := [].

(** the keys that used to be listed; they are ordinary members of the theorem's domain now *)
Definition C16_repaired_keys : list (string * string * nat) := [
  ("array_repeat", "databricks", 1%nat); ("array_repeat", "redshift", 1%nat);
  ("array_repeat", "spark", 1%nat); ("array_repeat", "standalone", 1%nat);
  ("date_sub", "snowflake", 1%nat);
  ("log1p", "bigquery", 0%nat); ("log1p", "duckdb", 0%nat); ("log1p", "postgres", 0%nat); ("log1p", "snowflake", 0%nat);
  ("overlay", "databricks", 2%nat); ("overlay", "databricks", 3%nat); ("overlay", "postgres", 2%nat);
  ("overlay", "postgres", 3%nat); ("overlay", "redshift", 2%nat); ("overlay", "redshift", 3%nat);
  ("overlay", "spark", 2%nat); ("overlay", "spark", 3%nat); ("overlay", "standalone", 2%nat);
  ("overlay", "standalone", 3%nat);
  ("slice", "bigquery", 1%nat); ("slice", "bigquery", 2%nat); ("slice", "duckdb", 1%nat); ("slice", "duckdb", 2%nat);
  ("slice", "postgres", 1%nat); ("slice", "postgres", 2%nat); ("slice", "snowflake", 1%nat); ("slice", "snowflake", 2%nat)
].
