(** C16 -- the probe names of the theorem and the list of known (unrepaired) defects (static; does not depend on
    /repo).  Shared by props/C16.v (the theorem is stated over the complement) and props/C16_refuted.v (every listed
    key is refuted by the model).

    History: 27 keys found with plain probe names (log1p, slice, array_repeat, overlay pos/len, date_sub: a raw str met a
    Python operator or lit()) and 44 keys found with the non-bare probe names 'event time' / 'end-ts' (add_months, trunc,
    date_trunc, overlay replace, collect_set, isnan, nanvl, position, base64, unbase64, decode: Column(x) parses the str as
    SQL) were repaired in /repo (findings/C16.known.json, status fixed).  Their replay files stay as corpus cases
    (props/C16.v [C16_repaired], checks/c16.py). *)
From Coq Require Import String List ZArith. Import ListNotations. Open Scope string_scope.

(** the theorem is checked for these probe names (the finite bound of the statement) *)
(** "c": a plain name; "MyCol": mixed case (identifier normalisation); "l.id": qualified; "event time", "end-ts": names
    that are not bare identifiers (they parse as SQL expressions when a str is handed to Column() instead of col()) *)
Definition probe_names : list string := ["c"; "MyCol"; "l.id"; "event time"; "end-ts"].

(** genuine defects still present in the tree (findings/C16.known.json, status known): the FORMAT argument of
    to_unix_timestamp / try_to_timestamp / to_timestamp_ntz.  PySpark declares it ColumnOrName (a str is a column name);
    sqlframe reads a str as the format text itself and reduces a Column to the text of its normalised identifier
    (session.format_time), so the two call forms agree only for lower-case bare names.  Repairing it means deciding what a
    format given as a column should mean for the dialect time-format translation: a redesign, not a one-line patch. *)
Definition C16_known : list (string * string * nat) := [
  ("to_timestamp_ntz", "bigquery", 1%nat);
  ("to_timestamp_ntz", "duckdb", 1%nat);
  ("to_timestamp_ntz", "postgres", 1%nat);
  ("to_unix_timestamp", "databricks", 1%nat);
  ("to_unix_timestamp", "duckdb", 1%nat);
  ("to_unix_timestamp", "redshift", 1%nat);
  ("to_unix_timestamp", "spark", 1%nat);
  ("to_unix_timestamp", "standalone", 1%nat);
  ("try_to_timestamp", "bigquery", 1%nat);
  ("try_to_timestamp", "databricks", 1%nat);
  ("try_to_timestamp", "duckdb", 1%nat);
  ("try_to_timestamp", "postgres", 1%nat);
  ("try_to_timestamp", "redshift", 1%nat);
  ("try_to_timestamp", "snowflake", 1%nat);
  ("try_to_timestamp", "spark", 1%nat);
  ("try_to_timestamp", "standalone", 1%nat)
].

(** the keys that used to be listed and were repaired in /repo (status fixed); ordinary members of the theorem's domain *)
Definition C16_repaired_keys : list (string * string * nat) := [
  ("add_months", "bigquery", 0%nat);
  ("add_months", "databricks", 0%nat);
  ("add_months", "duckdb", 0%nat);
  ("add_months", "postgres", 0%nat);
  ("add_months", "redshift", 0%nat);
  ("add_months", "spark", 0%nat);
  ("add_months", "standalone", 0%nat);
  ("array_repeat", "databricks", 1%nat);
  ("array_repeat", "redshift", 1%nat);
  ("array_repeat", "spark", 1%nat);
  ("array_repeat", "standalone", 1%nat);
  ("base64", "bigquery", 0%nat);
  ("base64", "duckdb", 0%nat);
  ("base64", "postgres", 0%nat);
  ("base64", "snowflake", 0%nat);
  ("collect_set", "bigquery", 0%nat);
  ("collect_set", "duckdb", 0%nat);
  ("collect_set", "postgres", 0%nat);
  ("date_sub", "snowflake", 1%nat);
  ("date_trunc", "bigquery", 1%nat);
  ("date_trunc", "databricks", 1%nat);
  ("date_trunc", "duckdb", 1%nat);
  ("date_trunc", "postgres", 1%nat);
  ("date_trunc", "redshift", 1%nat);
  ("date_trunc", "snowflake", 1%nat);
  ("date_trunc", "spark", 1%nat);
  ("date_trunc", "standalone", 1%nat);
  ("decode", "duckdb", 0%nat);
  ("decode", "postgres", 0%nat);
  ("isnan", "postgres", 0%nat);
  ("isnan", "snowflake", 0%nat);
  ("log1p", "bigquery", 0%nat);
  ("log1p", "duckdb", 0%nat);
  ("log1p", "postgres", 0%nat);
  ("log1p", "snowflake", 0%nat);
  ("nanvl", "postgres", 0%nat);
  ("nanvl", "snowflake", 0%nat);
  ("overlay", "databricks", 1%nat);
  ("overlay", "databricks", 2%nat);
  ("overlay", "databricks", 3%nat);
  ("overlay", "postgres", 1%nat);
  ("overlay", "postgres", 2%nat);
  ("overlay", "postgres", 3%nat);
  ("overlay", "redshift", 1%nat);
  ("overlay", "redshift", 2%nat);
  ("overlay", "redshift", 3%nat);
  ("overlay", "spark", 1%nat);
  ("overlay", "spark", 2%nat);
  ("overlay", "spark", 3%nat);
  ("overlay", "standalone", 1%nat);
  ("overlay", "standalone", 2%nat);
  ("overlay", "standalone", 3%nat);
  ("position", "bigquery", 2%nat);
  ("slice", "bigquery", 1%nat);
  ("slice", "bigquery", 2%nat);
  ("slice", "duckdb", 1%nat);
  ("slice", "duckdb", 2%nat);
  ("slice", "postgres", 1%nat);
  ("slice", "postgres", 2%nat);
  ("slice", "snowflake", 1%nat);
  ("slice", "snowflake", 2%nat);
  ("trunc", "bigquery", 0%nat);
  ("trunc", "databricks", 0%nat);
  ("trunc", "duckdb", 0%nat);
  ("trunc", "postgres", 0%nat);
  ("trunc", "redshift", 0%nat);
  ("trunc", "snowflake", 0%nat);
  ("trunc", "spark", 0%nat);
  ("trunc", "standalone", 0%nat);
  ("unbase64", "postgres", 0%nat);
  ("unbase64", "snowflake", 0%nat)
].
