(** C16 -- symbolic semantics of the stylised Python in which sqlframe's functions are written.

    [fexp]/[stm] is the target of the fail-closed translator translate/c16_fexp.py (one [fdef] per function of
    base/functions.py and base/function_alternatives.py).  [run] interprets a function on symbolic arguments:
    a column NAME given as a Python str is [VStr c]; a Column built by col(c) is [VCol (NCol c)].

    What makes the property true or false is carried by a handful of coercions, written once here and
    parametrised by the facts [prims] read from base/column.py on every run:
      - Column.ensure_col / invoke_anonymous_function / invoke_expression_over_column coerce str -> column
      - Python operators on a Column (binary_op / inverse_binary_op) and lit() turn a str into a LITERAL
      - attribute access / method calls on a raw str raise (AttributeError)
    Every other constructor, method or helper is an uninterpreted INJECTIVE symbol over its arguments
    ([NN tag kids]): equal arguments give equal trees, a raw str inside it stays a raw str ([NRaw]/[NLit]),
    different from the column node.  Anything outside the modelled fragment evaluates to [VUnk] and the
    entry is then not decided by the theorem (it is listed, and decided by the correspondence run only). *)
From Coq Require Import String List ZArith Bool Ascii DecimalString.
Import ListNotations.
Open Scope string_scope.

(* ------------------------------------------------------------------------------------------ syntax *)
Inductive konst := KNone | KBool (b : bool) | KInt (z : Z) | KFloat (s : string) | KStr (s : string).

Inductive fexp :=
| EConst (k : konst)
| EVar (x : string)
| EFun (f : string)                                  (* module-level function used as a value / callee *)
| EList (tup : bool) (es : list fexp)                (* list or tuple display; [EStar] allowed inside *)
| EStar (e : fexp)
| ECall (f : fexp) (args : list fexp) (kw : list (string * fexp))
| EPrim (p : string) (args : list fexp) (kw : list (string * fexp))
| EMethod (r : fexp) (m : string) (args : list fexp) (kw : list (string * fexp))
| EAttr (r : fexp) (a : string)
| EBin (op : string) (l r : fexp)
| EUn (op : string) (e : fexp)
| ECmp (op : string) (l r : fexp)
| EAnd (l r : fexp)
| EOr (l r : fexp)
| ENot (e : fexp)
| EIf (c a b : fexp)
| EIsInst (e : fexp) (tys : list string)
| ESub (e i : fexp)
| ESlice (e : fexp) (lo hi st : option fexp)
| EComp (x : string) (it elt : fexp) (cond : option fexp)
| EOpaque (why : string).

Inductive stm :=
| SRet (e : fexp)
| SRaise (why : string)
| SFall
| SAssign (x : string) (e : fexp) (k : stm)
| SIf (c : fexp) (a b : stm) (k : stm)
| SFor (x : string) (it : fexp) (body : stm) (k : stm)     (* for x in it: body   (no else clause) *)
| SBreak
| SOpaque (why : string).

Inductive pkind := PPos | PVar | PKwOnly | PKwargs.
Record param := mkParam { p_name : string; p_kind : pkind; p_default : option fexp }.
Record fdef := mkFdef { f_params : list param; f_unsupported : list string; f_body : stm }.
Definition table := list (string * fdef).

(** facts read from base/column.py, base/functions.py (col, lit) and the engine packages *)
Record prims := mkPrims {
  ensure_col_calls_col : bool;     (* Column.ensure_col(v) == col(v) *)
  col_str_is_column : bool;        (* col(str) builds a column reference *)
  lit_str_is_literal : bool;       (* lit(str) builds a string literal *)
  ctor_str_is_parsed : bool;       (* Column(str) parses the string (a simple name -> column reference) *)
  anon_coerces_this : bool;        (* invoke_anonymous_function: ensure_col on `column` *)
  anon_coerces_args : bool;        (*   ... and on every *args element *)
  over_coerces_this : bool;        (* invoke_expression_over_column: ensure_col on `column` *)
  over_coerces_kwargs : bool;      (*   ... and on every kwargs value (element-wise for iterables) *)
  over_drops_none : bool;          (*   kwargs with value None are dropped *)
  binop_str_is_literal : bool;     (* binary_op / inverse_binary_op: str operand -> _lit *)
  pow_uses_ctor : bool;            (* __pow__/__rpow__: Column(power) *)
  fmt_col_is_name : bool;          (* session.format_time(Column) formats value.expression.this, i.e. the NAME *)
  col_ops : list string;           (* dunder methods defined by Column: "add" "radd" "eq" ... *)
  str_methods : list string;       (* dir(str): a method with such a name exists on a raw str *)
  exec_dialect : list (string * string);          (* engine -> name of its execution dialect *)
  module_funcs : list (string * list string)      (* dialect name -> functions exported by sqlframe.<d>.functions *)
}.

(* ------------------------------------------------------------------------------------------ values *)
Inductive node :=
| NCol (s : string)          (* column reference built from the name s *)
| NLit (s : string)          (* SQL string literal *)
| NRaw (s : string)          (* raw python str stored inside an expression *)
| NNum (s : string)          (* numeric literal / python number *)
| NBool (b : bool)
| NNull
| NN (tag : string) (kids : list node)
| NUnk.

Inductive val :=
| VNone | VBool (b : bool) | VInt (z : Z) | VFloat (s : string) | VStr (s : string)
| VCol (n : node)            (* sqlframe Column *)
| VExp (n : node)            (* sqlglot expression (or a session/dialect helper object) *)
| VOpq (n : node)            (* deterministic python value of unknown type and truth value (e.g. a computed str) *)
| VList (tup : bool) (l : list val)
| VFun (f : string)
| VSess
| VLam (n : nat)             (* the caller's lambda  x1 .. xn -> x1  (what the correspondence run passes) *)
| VErr (why : string)
| VUnk (why : string).

(** computed python values are wrapped: nothing inside them counts as an occurrence of a column or literal *)
Definition mkopq (n : node) : val := VOpq (NN "opaque-value" [n]).

Inductive sarg := SStr (s : string) | SCol (s : string) | SInt (z : Z) | SFloat (s : string)
                | SBool (b : bool) | SNone | SLam (n : nat) | STest.

(* ------------------------------------------------------------------------------------------ helpers *)
Definition mem (s : string) (l : list string) : bool := existsb (String.eqb s) l.
Fixpoint assoc {A} (k : string) (l : list (string * A)) : option A :=
  match l with [] => None | (k', v) :: t => if String.eqb k k' then Some v else assoc k t end.
Definition zstr (z : Z) : string := NilZero.string_of_int (Z.to_int z).

Fixpoint node_eqb (a b : node) {struct a} : bool :=
  match a, b with
  | NCol x, NCol y | NLit x, NLit y | NRaw x, NRaw y | NNum x, NNum y => String.eqb x y
  | NBool x, NBool y => Bool.eqb x y
  | NNull, NNull => true
  | NN t1 k1, NN t2 k2 =>
      String.eqb t1 t2 &&
      (fix go (l1 l2 : list node) {struct l1} : bool :=
         match l1, l2 with
         | [], [] => true
         | x :: r1, y :: r2 => node_eqb x y && go r1 r2
         | _, _ => false
         end) k1 k2
  | _, _ => false     (* NUnk equals nothing, not even itself *)
  end.

Fixpoint node_unk (a : node) : bool :=
  match a with
  | NUnk => true
  | NN _ k => (fix go (l : list node) : bool := match l with [] => false | x :: r => node_unk x || go r end) k
  | _ => false
  end.

Fixpoint val_eqb (a b : val) {struct a} : bool :=
  match a, b with
  | VNone, VNone | VSess, VSess => true
  | VBool x, VBool y => Bool.eqb x y
  | VInt x, VInt y => Z.eqb x y
  | VFloat x, VFloat y | VStr x, VStr y | VFun x, VFun y => String.eqb x y
  | VCol x, VCol y | VExp x, VExp y | VOpq x, VOpq y => node_eqb x y
  | VLam x, VLam y => Nat.eqb x y
  | VList t1 l1, VList t2 l2 =>
      Bool.eqb t1 t2 &&
      (fix go (l1 l2 : list val) {struct l1} : bool :=
         match l1, l2 with
         | [], [] => true
         | x :: r1, y :: r2 => val_eqb x y && go r1 r2
         | _, _ => false
         end) l1 l2
  | _, _ => false
  end.

Fixpoint val_unk (a : val) : bool :=
  match a with
  | VUnk _ => true
  | VCol n | VExp n | VOpq n => node_unk n
  | VList _ l => (fix go (l : list val) : bool := match l with [] => false | x :: r => val_unk x || go r end) l
  | _ => false
  end.

(** data-flow fingerprint used by the correspondence check: how often the name [s] occurs in a result as a column
    reference ([col] = true) or as a string literal ([col] = false) *)
Fixpoint ncount (col : bool) (s : string) (n : node) : nat :=
  match n with
  | NCol x => if col && String.eqb x s then 1 else 0
  | NLit x => if negb col && String.eqb x s then 1 else 0
  | NN tag kids =>
      match kids with
      | [NRaw x] =>
          if String.eqb tag "exp:Literal.string"
          then (if negb col && String.eqb x s then 1 else 0)
          else if String.eqb tag "exp:column" then (if col && String.eqb x s then 1 else 0)
          else 0
      | _ => if String.eqb tag "opaque-value" then 0 else
             (fix go (l : list node) : nat := match l with [] => 0 | x :: r => ncount col s x + go r end) kids
      end
  | _ => 0
  end.
(** session.format_time rewrites the text of its argument (dialect time-format mapping): string literals are then
    not comparable by text *)
Fixpoint has_fmt (n : node) : bool :=
  match n with
  | NN tag kids =>
      String.eqb tag "session.format_time" || String.eqb tag "session.format_execution_time" ||
      (fix go (l : list node) : bool := match l with [] => false | x :: r => has_fmt x || go r end) kids
  | _ => false
  end.
Definition vcount (col : bool) (s : string) (v : val) : nat :=
  match v with VCol n | VExp n => ncount col s n | _ => 0 end.
(** [fp] = what the implementation's tree contains: (name, #column references, #string literals) *)
Definition fp_ok (v : val) (fp : list (string * nat * nat)) : bool :=
  forallb (fun t : string * nat * nat =>
             let '(s, nc, nl) := t in
             Nat.eqb (vcount true s v) nc &&
             ((match v with VCol n | VExp n => has_fmt n | _ => false end) || Nat.eqb (vcount false s v) nl)) fp.

Definition is_err (v : val) : bool := match v with VErr _ => true | _ => false end.
Definition abnormal (v : val) : bool := match v with VErr _ | VUnk _ => true | _ => false end.
Definition bindv (v : val) (f : val -> val) : val := if abnormal v then v else f v.

Fixpoint first_abnormal (l : list val) : option val :=
  match l with [] => None | v :: t => if abnormal v then Some v else first_abnormal t end.
Definition with_all (l : list val) (f : list val -> val) : val :=
  match first_abnormal l with Some v => v | None => f l end.

(** [Alias] nodes are what Column.alias builds; [column_expression] strips one *)
Definition unalias (n : node) : node :=
  match n with NN "alias" (x :: _) => x | _ => n end.

(** value -> node, the three contexts *)
Fixpoint as_lit (v : val) : node :=          (* Column._lit / Column(value) for non-str: literals *)
  match v with
  | VStr s => NLit s
  | VCol n => n
  | VExp n => n
  | VInt z => NNum (zstr z)
  | VFloat s => NNum s
  | VBool b => NBool b
  | VNone => NNull
  | VList _ l => NN "array" (map as_lit l)
  | VOpq n => NN "literal-of" [n]
  | _ => NUnk
  end.

Fixpoint as_raw (v : val) : node :=          (* argument of a sqlglot constructor / helper *)
  match v with
  | VStr s => NRaw s
  | VCol n => NN "column-object" [n]
  | VExp n => n
  | VInt z => NNum (zstr z)
  | VFloat s => NNum s
  | VBool b => NBool b
  | VNone => NNull
  | VList _ l => NN "list" (map as_raw l)
  | VFun f => NN "function" [NRaw f]
  | VSess => NN "session" []
  | VOpq n => n
  | VLam n => NN "lambda" [NNum (zstr (Z.of_nat n))]
  | _ => NUnk
  end.

Fixpoint find_literals (n : node) : list node :=
  match n with
  | NLit _ | NNum _ => [n]
  | NN tag kids =>
      if mem tag ["exp:Literal.string"; "exp:Literal.number"] then [n]
      else (fix go (l : list node) : list node := match l with [] => [] | x :: r => find_literals x ++ go r end)%list kids
  | _ => []
  end.

Fixpoint has_colobj (v : val) : bool :=
  match v with
  | VCol _ => true
  | VList _ l => (fix go (l : list val) : bool := match l with [] => false | x :: r => has_colobj x || go r end) l
  | _ => false
  end.

(** letters, digits, underscore and dots, not starting with a digit or a dot: what parses as a (qualified) column name *)
Definition name_char (a : ascii) : bool :=
  let n := nat_of_ascii a in
  (((65 <=? n) && (n <=? 90)) || ((97 <=? n) && (n <=? 122)) || ((48 <=? n) && (n <=? 57)) || (n =? 95) || (n =? 46))%nat.
Fixpoint all_chars (f : ascii -> bool) (s : string) : bool :=
  match s with EmptyString => true | String a r => f a && all_chars f r end.
Definition lower_bare (s : string) : bool :=
  match s with
  | EmptyString => false
  | String a _ =>
      negb ((48 <=? nat_of_ascii a) && (nat_of_ascii a <=? 57))%nat &&
      all_chars (fun a => let n := nat_of_ascii a in
                          (((97 <=? n) && (n <=? 122)) || ((48 <=? n) && (n <=? 57)) || (n =? 95))%nat) s
  end.
Definition plain_name (s : string) : bool :=
  match s with
  | EmptyString => false
  | String a _ => let n := nat_of_ascii a in
                  negb (((48 <=? n) && (n <=? 57)) || (n =? 46))%nat && all_chars name_char s
  end.

Section Sem.
  Variable P : prims.
  Variable T : table.
  Variable eng : string.

  Definition dialect_of : string := match assoc eng (exec_dialect P) with Some d => d | None => eng end.
  Definition in_module (f : string) : bool :=
    match assoc dialect_of (module_funcs P) with Some l => mem f l | None => false end.

  (** col(v) *)
  Definition to_col (v : val) : val :=
    match v with
    | VStr s => if col_str_is_column P then VCol (NCol s) else VCol (NLit s)
    | VCol n => VCol n
    | VExp n => VCol n
    | VNone | VInt _ | VFloat _ | VBool _ | VList _ _ => VCol (as_lit v)
    | VErr _ | VUnk _ => v
    | VOpq n => VCol (NN "col-of-opaque" [n])
    | _ => VUnk "col() of a non-data value"
    end.
  (** Column(v): a str is PARSED as SQL (sqlglot.maybe_parse).  For a (possibly qualified) plain identifier that is the
      column reference col() builds; any other text ('event time', 'end-ts', 'sum(b)') is read as an expression, i.e.
      as something else than the column of that name *)
  Definition ctor (v : val) : val :=
    match v with
    | VStr s => if ctor_str_is_parsed P
                then (if plain_name s then VCol (NCol s) else VCol (NN "parsed-as-sql" [NRaw s]))
                else VCol (NLit s)
    | VOpq n => VCol (NN "ctor-of-opaque" [n])
    | _ => to_col v
    end.
  (** lit(v) *)
  Definition lit (v : val) : val :=
    match v with
    | VStr s => if lit_str_is_literal P then VCol (NLit s) else VCol (NCol s)
    | VOpq n => VCol (NN "literal-of" [n])
    | _ => to_col v
    end.
  Definition ensure_col (v : val) : val := if ensure_col_calls_col P then to_col v else ctor v.

  (** the expression node a coerced value contributes ([x.column_expression]) *)
  Definition cexp (v : val) : node :=
    match v with VCol n => unalias n | VErr _ => NUnk | _ => NUnk end.

  (** operand of a Column operator *)
  Definition operand (pow : bool) (v : val) : node :=
    match v with
    | VStr s => if pow && pow_uses_ctor P then NCol s
                else if binop_str_is_literal P then NLit s else NCol s
    | VCol n => unalias n
    | _ => as_lit v
    end.

  Definition is_data (v : val) : bool :=
    match v with VStr _ | VCol _ | VExp _ | VInt _ | VFloat _ | VBool _ | VNone => true | _ => false end.

  Definition arith (op : string) (a b : Z) : val :=
    if String.eqb op "add" then VInt (a + b) else if String.eqb op "sub" then VInt (a - b)
    else if String.eqb op "mul" then VInt (a * b) else VUnk "int operator".

  Definition binop (op : string) (l r : val) : val :=
    match l, r with
    | VCol a, _ =>
        if negb (is_data r) then VUnk "operator with a non-data operand"
        else if mem op (col_ops P) then VCol (NN ("op:" ++ op) [unalias a; operand (String.eqb op "pow") r])
        else VErr "TypeError: unsupported operand"
    | _, VCol b =>
        match l with
        | VStr _ | VInt _ | VFloat _ | VBool _ | VNone =>
            if String.eqb op "mod" && (match l with VStr _ => true | _ => false end)
            then VUnk "str % x is string formatting"
            else if mem ("r" ++ op) (col_ops P)
            then VCol (NN ("op:r" ++ op) [operand (String.eqb op "pow") l; unalias b])
            else VErr "TypeError: unsupported operand"
        | _ => VUnk "reflected operator with an unusual left operand"
        end
    | VInt a, VInt b => arith op a b
    | VStr a, VStr b => if String.eqb op "add" then VStr (a ++ b) else VErr "TypeError: str operator"
    | VStr a, VInt z => if String.eqb op "mul" then mkopq (NN "str*int" [NRaw a; NNum (zstr z)]) else VErr "TypeError: str operator"
    | VStr _, VOpq _ | VOpq _, VStr _ | VOpq _, VOpq _ =>
        if String.eqb op "add" then mkopq (NN "str+str" [as_raw l; as_raw r]) else VUnk "operator on a computed value"
    | VList t1 a, VList t2 b =>
        if String.eqb op "add" then (if Bool.eqb t1 t2 then VList t1 (a ++ b) else VErr "TypeError: list + tuple")
        else VErr "TypeError: list operator"
    | VExp a, _ => if is_data r then VExp (NN ("eop:" ++ op) [a; as_lit r]) else VUnk "expression operator"
    | _, _ => VUnk "operator on unmodelled operands"
    end.

  Definition cmpop (op : string) (l r : val) : val :=
    if String.eqb op "is" then
      match l, r with
      | VNone, VNone => VBool true
      | VNone, _ | _, VNone => VBool false
      | VBool a, VBool b => VBool (Bool.eqb a b)
      | _, _ => VUnk "is"
      end
    else if String.eqb op "isnot" then
      match l, r with
      | VNone, VNone => VBool false
      | VNone, _ | _, VNone => VBool true
      | VBool a, VBool b => VBool (negb (Bool.eqb a b))
      | _, _ => VUnk "is not"
      end
    else if String.eqb op "in" || String.eqb op "notin" then
      match r with
      | VList _ items =>
          if forallb (fun v => match v with VInt _ | VStr _ | VNone | VBool _ => true | _ => false end) (l :: items)
          then VBool (Bool.eqb (existsb (val_eqb l) items) (String.eqb op "in"))
          else VUnk "in over non-constants"
      | _ => VUnk "in"
      end
    else
    match l, r with
    | VCol a, _ =>
        if is_data r then VCol (NN ("op:" ++ op) [unalias a; operand false r]) else VUnk "comparison operand"
    | _, VCol b =>
        match l with
        | VStr _ | VInt _ | VFloat _ | VBool _ | VNone => VCol (NN ("op:swapped-" ++ op) [unalias b; operand false l])
        | _ => VUnk "comparison operand"
        end
    | VInt a, VInt b =>
        if String.eqb op "eq" then VBool (a =? b)%Z else if String.eqb op "ne" then VBool (negb (a =? b)%Z)
        else if String.eqb op "lt" then VBool (a <? b)%Z else if String.eqb op "le" then VBool (a <=? b)%Z
        else if String.eqb op "gt" then VBool (a >? b)%Z else if String.eqb op "ge" then VBool (a >=? b)%Z
        else VUnk "comparison"
    | VStr a, VStr b =>
        if String.eqb op "eq" then VBool (String.eqb a b) else if String.eqb op "ne" then VBool (negb (String.eqb a b))
        else VUnk "str ordering"
    | VNone, VNone => if String.eqb op "eq" then VBool true else if String.eqb op "ne" then VBool false else VErr "TypeError"
    | VExp a, _ => if is_data r then VExp (NN ("eop:" ++ op) [a; as_lit r]) else VUnk "expression comparison"
    | _, _ => VUnk "comparison of unmodelled operands"
    end.

  Definition unop (op : string) (v : val) : val :=
    match v with
    | VCol a => if mem op (col_ops P) then VCol (NN ("op:" ++ op) [unalias a]) else VErr "TypeError: bad operand for unary"
    | VInt z => if String.eqb op "neg" then VInt (- z) else VUnk "int unary"
    | VStr _ | VNone | VList _ _ => VErr "TypeError: bad operand for unary"
    | VErr _ | VUnk _ => v
    | _ => VUnk "unary"
    end.

  (** python truthiness; None = unknown *)
  Definition truthy (v : val) : option bool :=
    match v with
    | VNone => Some false
    | VBool b => Some b
    | VInt z => Some (negb (z =? 0)%Z)
    | VStr s => Some (negb (String.eqb s ""))
    | VList _ l => Some (match l with [] => false | _ => true end)
    | VCol _ | VExp _ | VFun _ | VSess | VLam _ => Some true
    | _ => None
    end.

  Definition isinst (v : val) (tys : list string) : val :=
    let one (ty : string) : option bool :=
      let builtin := mem ty ["str"; "int"; "float"; "bool"; "list"; "tuple"; "set"; "dict"; "Column"; "bytes"] in
      match v with
      | VStr _ => Some (String.eqb ty "str")
      | VInt _ => Some (String.eqb ty "int")
      | VBool _ => Some (String.eqb ty "bool" || String.eqb ty "int")
      | VFloat _ => Some (String.eqb ty "float")
      | VList t _ => Some (String.eqb ty (if t then "tuple" else "list"))
      | VCol _ => Some (String.eqb ty "Column")
      | VNone => Some false
      | VExp n =>
          if builtin then Some false
          else if String.eqb ty "expression.Literal" then
            match n with
            | NLit _ | NNum _ => Some true
            | NCol _ | NNull | NBool _ => Some false
            | NN tag _ => if mem tag ["exp:Literal.string"; "exp:Literal.number"; "exp:Literal"] then Some true
                          else if prefix "exp:Literal" tag then None else Some false
            | _ => None
            end
          else if String.eqb ty "expression.Column" then
            match n with NCol _ => Some true | NLit _ | NNum _ | NNull | NBool _ => Some false | _ => None end
          else None
      | VFun _ | VSess | VLam _ => if builtin then Some false else None
      | _ => None
      end in
    (fix go (l : list string) : val :=
       match l with
       | [] => VBool false
       | ty :: r => match one ty with
                    | Some true => VBool true
                    | Some false => go r
                    | None => VUnk "isinstance of an opaque object"
                    end
       end) tys.

  Definition norm_index (n : nat) (i : Z) : Z := if (i <? 0)%Z then (Z.of_nat n + i)%Z else i.

  Definition subscript (v i : val) : val :=
    match v, i with
    | VList _ l, VInt z =>
        let j := norm_index (length l) z in
        if (j <? 0)%Z then VErr "IndexError" else
        match nth_error l (Z.to_nat j) with Some x => x | None => VErr "IndexError" end
    | VStr _, _ => VUnk "str subscript"
    | VCol _, _ | VExp _, _ => VUnk "object subscript"
    | VNone, _ | VInt _, _ | VBool _, _ => VErr "TypeError: not subscriptable"
    | _, _ => VUnk "subscript"
    end.

  Fixpoint every_nth {A} (fuel : nat) (k : nat) (l : list A) : list A :=
    match fuel, l with
    | S f, x :: _ => x :: every_nth f k (skipn k l)
    | _, _ => []
    end.

  Definition clampZ (n : nat) (i : Z) : nat :=
    let j := norm_index n i in if (j <? 0)%Z then 0%nat else Nat.min n (Z.to_nat j).

  Definition slice (v : val) (lo hi st : option val) : val :=
    match v with
    | VList t l =>
        let n := length l in
        let bound (o : option val) (d : nat) : option nat :=
          match o with None | Some VNone => Some d | Some (VInt z) => Some (clampZ n z) | _ => None end in
        let step : option nat :=
          match st with None | Some VNone => Some 1%nat
                      | Some (VInt z) => if (0 <? z)%Z then Some (Z.to_nat z) else None | _ => None end in
        match bound lo 0%nat, bound hi n, step with
        | Some a, Some b, Some k =>
            VList t (every_nth n k (firstn (b - a) (skipn a l)))
        | _, _, _ => VUnk "slice bounds"
        end
    | VStr _ => VUnk "str slice"
    | VErr _ | VUnk _ => v
    | _ => VUnk "slice of a non-list"
    end.

  Fixpoint flatten_val (fuel : nat) (l : list val) : list val :=
    match fuel with
    | O => [VUnk "flatten depth"]
    | S f => flat_map (fun v => match v with VList _ l' => flatten_val f l' | _ => [v] end) l
    end.

  (** splice [EStar] results: a starred value must be a list/tuple *)
  Definition splice (l : list (bool * val)) : list val :=
    flat_map (fun bv : bool * val =>
                let (star, v) := bv in
                if star then match v with
                             | VList _ l' => l'
                             | VErr _ | VUnk _ => [v]
                             | VStr _ => [VUnk "star of a str"]
                             | _ => [VErr "TypeError: not iterable"]
                             end
                else [v]) l.

  Definition kwnode (kv : string * val) (f : val -> node) : node := NN ("kw:" ++ fst kv) [f (snd kv)].

  (** invoke_anonymous_function(column, name, *args) *)
  Definition prim_anon (args : list val) : val :=
    match args with
    | column :: VStr name :: rest =>
        let this := match column with
                    | VNone => []
                    | _ => [if anon_coerces_this P then ensure_col column else ctor column]
                    end in
        let others := map (fun a => if anon_coerces_args P then ensure_col a else lit a) rest in
        with_all (this ++ others) (fun cs => VCol (NN ("anon:" ++ name) (map cexp cs)))
    | _ :: VErr _ :: _ | _ :: VUnk _ :: _ => VUnk "anonymous function name"
    | _ => VUnk "invoke_anonymous_function with an unmodelled name"
    end.

  (** invoke_expression_over_column(column, cls, **kwargs) *)
  Definition prim_over (args : list val) (kw : list (string * val)) : val :=
    match args with
    | [column; VStr cls] =>
        let this := match column with
                    | VNone => []
                    | _ => [("this", if over_coerces_this P then ensure_col column else ctor column)]
                    end in
        let coerce (v : val) : val := if over_coerces_kwargs P then ensure_col v else lit v in
        let kws := flat_map (fun kv : string * val =>
                     let (k, v) := kv in
                     match v with
                     | VNone => if over_drops_none P then [] else [(k, coerce v)]
                     | VList _ l => [(k, with_all (map coerce l) (fun cs => VExp (NN "list" (map cexp cs))))]
                     | _ => [(k, coerce v)]
                     end) kw in
        with_all (map snd (this ++ kws))
          (fun _ => VCol (NN ("fn:" ++ cls)
                       (map (fun kv : string * val =>
                               NN ("kw:" ++ fst kv) [match snd kv with VExp n => n | v => cexp v end]) (this ++ kws))))
    | _ => VUnk "invoke_expression_over_column with unmodelled arguments"
    end.

  Definition prim_builtin (p : string) (args : list val) (kw : list (string * val)) : val :=
    if String.eqb p "ensure_col" then match args with [v] => ensure_col v | _ => VUnk "ensure_col arity" end
    else if String.eqb p "Column" then match args with [v] => ctor v | _ => VUnk "Column arity" end
    else if String.eqb p "anon" then prim_anon args
    else if String.eqb p "over" then prim_over args kw
    else if String.eqb p "session" then VSess
    else if String.eqb p "get_func" then
      match args with
      | VStr f :: _ =>
          if in_module f then VFun f
          else match assoc f T with
               | Some d => if mem dialect_of (f_unsupported d) then VErr "NotImplementedError" else VFun f
               | None => if String.eqb f "col" || String.eqb f "lit" then VFun f else VErr "AttributeError: no such function"
               end
      | _ => VUnk "get_func_from_session of a computed name"
      end
    else if String.eqb p "len" then
      match args with [VList _ l] => VInt (Z.of_nat (length l)) | [VStr s] => VInt (Z.of_nat (String.length s))
                    | [VNone] | [VInt _] | [VCol _] => VErr "TypeError: no len" | _ => VUnk "len" end
    else if String.eqb p "list" then
      match args with [VList _ l] => VList false l | [] => VList false [] | _ => VUnk "list()" end
    else if String.eqb p "tuple" then
      match args with [VList _ l] => VList true l | _ => VUnk "tuple()" end
    else if String.eqb p "ensure_list" then
      match args with
      | [VNone] => VList false []
      | [VList _ l] => VList false l
      | [v] => if is_data v then VList false [v] else VUnk "ensure_list"
      | _ => VUnk "ensure_list"
      end
    else if String.eqb p "flatten" then
      match args with [VList _ l] => with_all (flatten_val 6 l) (fun l' => VList false l') | _ => VUnk "flatten" end
    else if String.eqb p "str" then
      match args with [VStr s] => VStr s | [VInt z] => VStr (zstr z) | _ => VUnk "str()" end
    else if String.eqb p "append" then
      match args with [VList t l; v] => VList t (l ++ [v]) | _ => VUnk "append" end
    else if String.eqb p "extend" then
      match args with [VList t l; VList _ l'] => VList t (l ++ l') | _ => VUnk "extend" end
    else if String.eqb p "warn" then VNone
    else if String.eqb p "reversed" then
      match args with [VList _ l] => VList false (rev l) | _ => VUnk "reversed" end
    else if String.eqb p "fstr" then       (* f-string: a str whose content is a function of its parts *)
      if forallb (fun v => match v with VStr _ | VInt _ | VBool _ | VNone | VOpq _ | VFloat _ => true | _ => false end) args
      then mkopq (NN "fstr" (map as_raw args)) else VUnk "f-string over objects"
    else if String.eqb p "nameerror" then VErr "NameError"
    else if String.eqb p "modconst" then      (* a module-level literal (dict / str / number table) *)
      match args with [VStr n] => mkopq (NN "modconst" [NRaw n]) | _ => VUnk "modconst" end
    else if String.eqb p "pure" then          (* re.sub / re.escape over str arguments *)
      match args with
      | VStr n :: rest =>
          if forallb (fun v => match v with VStr _ | VInt _ | VNone | VBool _ | VOpq _ => true | _ => false end) rest
          then mkopq (NN ("pure:" ++ n) (map as_raw rest)) else VUnk "pure function over objects"
      | _ => VUnk "pure"
      end
    else if String.eqb p "exp" then       (* free constructor / helper of sqlglot: first arg is its dotted name *)
      match args with
      | VStr name :: rest =>
          (* a sqlframe Column OBJECT stored inside a sqlglot node misbehaves (sqlglot probes it with getattr, which
             Column answers with getField): not modelled *)
          if existsb has_colobj rest || existsb (fun kv : string * val => has_colobj (snd kv)) kw
          then VUnk "Column object passed to a sqlglot constructor"
          else VExp (NN ("exp:" ++ name) (map as_raw rest ++ map (fun kv => kwnode kv as_raw) kw))
      | _ => VUnk "exp"
      end
    else VUnk ("primitive " ++ p).

  Definition method (recv : val) (m : string) (args : list val) (kw : list (string * val)) : val :=
    match recv with
    | VCol n =>
        if String.eqb m "alias" then
          match args with [a] => VCol (NN "alias" [unalias n; as_raw a]) | _ => VUnk "alias arity" end
        else if mem m (str_methods P) then VUnk "Column method with a str method name"
        else VCol (NN ("m:" ++ m) (n :: map as_lit args ++ map (fun kv => kwnode kv as_lit) kw))
    | VExp n =>
        if String.eqb m "find_all" then
          match args with
          | [VExp (NN "exp:Literal" [])] => VList false (map VExp (find_literals n))
          | _ => VUnk "find_all of another class"
          end
        else VExp (NN ("em:" ++ m) (n :: map as_raw args ++ map (fun kv => kwnode kv as_raw) kw))
    | VSess =>
        if String.eqb m "format_time" || String.eqb m "format_execution_time" then
          (* formats the str; for a Column it formats value.expression.this: the column's NAME / the literal's text *)
          let fa (v : val) : node :=
            match v with
            | VCol (NLit s) => if fmt_col_is_name P then NRaw s else NN "column-object" [NLit s]
            | VCol (NCol s) =>
                (* the identifier as rendered after normalisation: the name itself only for a lower-case bare name *)
                if fmt_col_is_name P then (if lower_bare s then NRaw s else NN "rendered-identifier" [NRaw s])
                else NN "column-object" [NCol s]
            | _ => as_raw v
            end in
          VExp (NN ("session." ++ m) (map fa args))
        else VExp (NN ("session." ++ m) (map as_raw args ++ map (fun kv => kwnode kv as_raw) kw))
    | VStr s0 =>
        if mem m (str_methods P)
        then (if forallb (fun v => match v with VStr _ | VInt _ | VNone | VBool _ => true | _ => false end) args
              then mkopq (NN ("strm:" ++ m) (NRaw s0 :: map as_raw args)) else VUnk "str method over objects")
        else VErr "AttributeError: str"
    | VOpq n => mkopq (NN ("om:" ++ m) (n :: map as_raw args ++ map (fun kv => kwnode kv as_raw) kw))
    | VList t l => if String.eqb m "copy" then VList t l else VUnk "list method"
    | VNone | VInt _ | VBool _ | VFloat _ => VErr "AttributeError"
    | VErr _ | VUnk _ => recv
    | _ => VUnk "method on an opaque object"
    end.

  Definition attr (recv : val) (a : string) : val :=
    match recv with
    | VCol n =>
        if String.eqb a "column_expression" then VExp (unalias n)
        else if String.eqb a "expression" then VExp n
        else if String.eqb a "alias_or_name" || String.eqb a "column_alias_or_name" then mkopq (NN ("attr:" ++ a) [n])
        else VUnk ("Column attribute " ++ a)
    | VExp n =>
        if String.eqb a "is_number" || String.eqb a "is_string" then
          let num := String.eqb a "is_number" in
          match n with
          | NNum _ => VBool num
          | NLit _ => VBool (negb num)
          | NN "exp:Literal.number" _ => VBool num
          | NN "exp:Literal.string" _ => VBool (negb num)
          | NCol _ => VBool false
          | _ => VUnk "is_number of an unknown node"
          end
        else if String.eqb a "co_varnames" then
          match n with
          | NN "code" [NNum "1"] => VList true [VStr "x"]
          | NN "code" [NNum "2"] => VList true [VStr "x"; VStr "y"]
          | NN "code" [NNum "3"] => VList true [VStr "x"; VStr "y"; VStr "z"]
          | _ => VUnk "co_varnames"
          end
        else VExp (NN ("attr:" ++ a) [n])
    | VLam n => if String.eqb a "__code__" then VExp (NN "code" [NNum (zstr (Z.of_nat n))]) else VUnk "lambda attribute"
    | VOpq n => mkopq (NN ("attr:" ++ a) [n])
    | VSess =>
        if String.eqb a "_is_standalone" || String.eqb a "_is_spark" || String.eqb a "_is_duckdb"
           || String.eqb a "_is_bigquery" || String.eqb a "_is_postgres" || String.eqb a "_is_redshift"
           || String.eqb a "_is_snowflake" || String.eqb a "_is_databricks"
        then VBool (String.eqb a ("_is_" ++ eng))
        else if String.eqb a "default_time_format" then VStr "<default_time_format>"
        else VExp (NN ("session." ++ a) [])
    | VStr _ => if mem a (str_methods P) then VUnk "str attribute" else VErr "AttributeError: str"
    | VNone | VInt _ | VBool _ | VFloat _ | VList _ _ => VErr "AttributeError"
    | VErr _ | VUnk _ => recv
    | _ => VUnk "attribute of an opaque object"
    end.

  (* ---------------------------------------------------------------------------------------- evaluation *)
  Definition env := list (string * val).

  Section Eval.
    Variable callf : string -> list val -> list (string * val) -> val.

    Definition apply (f : val) (args : list val) (kw : list (string * val)) : val :=
      match f with
      | VFun name => callf name args kw
      | VLam n => if Nat.eqb (length args) n
                  then match args, kw with a :: _, [] => a | _, _ => VErr "TypeError: lambda arguments" end
                  else VErr "TypeError: lambda arguments"
      | VCol _ => VErr "UnsupportedOperationError: Column is not callable"
      | VStr _ | VNone | VInt _ | VBool _ | VList _ _ => VErr "TypeError: not callable"
      | VErr _ | VUnk _ => f
      | _ => VUnk "call of an opaque object"
      end.

    Fixpoint eval (rho : env) (e : fexp) {struct e} : val :=
      let evs := fix evs (l : list fexp) : list (bool * val) :=
                   match l with
                   | [] => []
                   | EStar x :: r => (true, eval rho x) :: evs r
                   | x :: r => (false, eval rho x) :: evs r
                   end in
      let evkw := fix evkw (l : list (string * fexp)) : list (string * val) :=
                    match l with
                    | [] => []
                    | (k, x) :: r => (k, eval rho x) :: evkw r
                    end in
      let evo := fun (o : option fexp) => match o with None => None | Some x => Some (eval rho x) end in
      match e with
      | EConst KNone => VNone
      | EConst (KBool b) => VBool b
      | EConst (KInt z) => VInt z
      | EConst (KFloat s) => VFloat s
      | EConst (KStr s) => VStr s
      | EVar x => match assoc x rho with Some v => v | None => VErr ("UnboundLocalError: " ++ x) end
      | EFun f => VFun f
      | EList t es => with_all (splice (evs es)) (fun l => VList t l)
      | EStar _ => VUnk "star outside a display"
      | ECall f args kw =>
          bindv (eval rho f) (fun fv =>
            let a := splice (evs args) in let k := evkw kw in
            with_all (a ++ map snd k) (fun _ => apply fv a k))
      | EPrim p args kw =>
          let a := splice (evs args) in let k := evkw kw in
          with_all (a ++ map snd k) (fun _ => prim_builtin p a k)
      | EMethod r m args kw =>
          bindv (eval rho r) (fun rv =>
            (* attribute lookup happens before the arguments are evaluated *)
            match rv with
            | VStr _ | VNone | VInt _ | VBool _ | VFloat _ => method rv m [] []
            | _ => let a := splice (evs args) in let k := evkw kw in
                   with_all (a ++ map snd k) (fun _ => method rv m a k)
            end)
      | EAttr r a => bindv (eval rho r) (fun rv => attr rv a)
      | EBin op l r => bindv (eval rho l) (fun lv => bindv (eval rho r) (fun rv => binop op lv rv))
      | EUn op x => bindv (eval rho x) (unop op)
      | ECmp op l r => bindv (eval rho l) (fun lv => bindv (eval rho r) (fun rv => cmpop op lv rv))
      | EAnd l r => bindv (eval rho l) (fun lv =>
                      match truthy lv with Some true => eval rho r | Some false => lv | None => VUnk "truth value" end)
      | EOr l r => bindv (eval rho l) (fun lv =>
                      match truthy lv with Some true => lv | Some false => eval rho r | None => VUnk "truth value" end)
      | ENot x => bindv (eval rho x) (fun v =>
                      match truthy v with Some b => VBool (negb b) | None => VUnk "truth value" end)
      | EIf c a b => bindv (eval rho c) (fun cv =>
                      match truthy cv with Some true => eval rho a | Some false => eval rho b | None => VUnk "truth value" end)
      | EIsInst x tys => bindv (eval rho x) (fun v => isinst v tys)
      | ESub x i => bindv (eval rho x) (fun v => bindv (eval rho i) (fun iv => subscript v iv))
      | ESlice x lo hi st =>
          bindv (eval rho x) (fun v =>
            let ol (o : option val) : list val := match o with Some a => [a] | None => [] end in
            let parts : list val := app (ol (evo lo)) (app (ol (evo hi)) (ol (evo st))) in
            with_all parts (fun _ => slice v (evo lo) (evo hi) (evo st)))
      | EComp x it elt cond =>
          bindv (eval rho it) (fun iv =>
            match iv with
            | VList _ items =>
                let out := flat_map (fun item =>
                             let rho' := (x, item) :: rho in
                             match cond with
                             | None => [eval rho' elt]
                             | Some c => match truthy (eval rho' c) with
                                         | Some true => [eval rho' elt]
                                         | Some false => []
                                         | None => [VUnk "comprehension condition"]
                                         end
                             end) items in
                with_all out (fun l => VList false l)
            | VStr _ => VUnk "iteration over a str"
            | VNone | VInt _ | VBool _ | VCol _ => VErr "TypeError: not iterable"
            | _ => VUnk "iteration over an opaque object"
            end)
      | EOpaque why => VUnk why
      end.

    Inductive res := RRet (v : val) | RFall (rho : env) | RBreak (rho : env).

    Fixpoint exec (rho : env) (s : stm) {struct s} : res :=
      match s with
      | SRet e => RRet (eval rho e)
      | SRaise why => RRet (VErr why)
      | SFall => RFall rho
      | SAssign x e k =>
          let v := eval rho e in
          if abnormal v then RRet v else exec ((x, v) :: rho) k
      | SIf c a b k =>
          let cv := eval rho c in
          if abnormal cv then RRet cv else
          match truthy cv with
          | None => RRet (VUnk "truth value")
          | Some t =>
              match exec rho (if t then a else b) with
              | RRet v => RRet v
              | RFall rho' => exec rho' k
              | RBreak rho' => RBreak rho'
              end
          end
      | SBreak => RBreak rho
      | SFor x it body k =>
          let iv := eval rho it in
          if abnormal iv then RRet iv else
          match iv with
          | VList _ items =>
              match (fix loop (l : list val) (rho : env) : res :=
                       match l with
                       | [] => RFall rho
                       | item :: r =>
                           match exec ((x, item) :: rho) body with
                           | RRet v => RRet v
                           | RFall rho' => loop r rho'
                           | RBreak rho' => RFall rho'
                           end
                       end) items rho with
              | RRet v => RRet v
              | RFall rho' => exec rho' k
              | RBreak rho' => exec rho' k
              end
          | VStr _ => RRet (VUnk "iteration over a str")
          | VNone | VInt _ | VBool _ | VCol _ => RRet (VErr "TypeError: not iterable")
          | _ => RRet (VUnk "iteration over an opaque object")
          end
      | SOpaque why => RRet (VUnk why)
      end.
  End Eval.

  (** python argument binding *)
  Fixpoint bind_params (ps : list param) (args : list val) (kw : list (string * val))
           (evd : fexp -> val) : option env :=
    match ps with
    | [] => match args with [] => Some [] | _ => None end
    | p :: ps' =>
        match p_kind p with
        | PPos =>
            match args with
            | a :: args' =>
                match assoc (p_name p) kw with
                | Some _ => None      (* multiple values *)
                | None => option_map (cons (p_name p, a)) (bind_params ps' args' kw evd)
                end
            | [] =>
                match assoc (p_name p) kw, p_default p with
                | Some v, _ => option_map (cons (p_name p, v)) (bind_params ps' [] kw evd)
                | None, Some d => option_map (cons (p_name p, evd d)) (bind_params ps' [] kw evd)
                | None, None => None
                end
            end
        | PVar => option_map (cons (p_name p, VList true args)) (bind_params ps' [] kw evd)
        | PKwOnly =>
            match assoc (p_name p) kw, p_default p with
            | Some v, _ => option_map (cons (p_name p, v)) (bind_params ps' args kw evd)
            | None, Some d => option_map (cons (p_name p, evd d)) (bind_params ps' args kw evd)
            | None, None => None
            end
        | PKwargs => None         (* never generated: such a function is Opaque *)
        end
    end.

  Definition kw_known (ps : list param) (kw : list (string * val)) : bool :=
    forallb (fun kv : string * val => existsb (fun p => String.eqb (p_name p) (fst kv)) ps) kw.

  Fixpoint call (fuel : nat) (f : string) (args : list val) (kw : list (string * val)) : val :=
    match fuel with
    | O => VUnk "call depth"
    | S fuel' =>
        if String.eqb f "col" then match args, kw with [v], [] => to_col v | _, _ => VUnk "col arity" end
        else if String.eqb f "lit" then match args, kw with [v], [] => lit v | [], [] => lit VNone | _, _ => VUnk "lit arity" end
        else
        match assoc f T with
        | None => VUnk ("no body for " ++ f)
        | Some d =>
            if negb (kw_known (f_params d) kw) then VErr "TypeError: unexpected keyword" else
            match bind_params (f_params d) args kw (eval (call fuel') []) with
            | None => VErr "TypeError: arguments"
            | Some rho =>
                match exec (call fuel') rho (f_body d) with
                | RRet v => v
                | RFall _ => VNone
                | RBreak _ => VErr "SyntaxError: break outside loop"
                end
            end
        end
    end.

  Definition arg_val (a : sarg) : val :=
    match a with
    | SStr s => VStr s
    | SCol s => to_col (VStr s)
    | SInt z => VInt z
    | SFloat s => VFloat s
    | SBool b => VBool b
    | SNone => VNone
    | SLam n => VLam n
    | STest => VUnk "unfilled test slot"
    end.

  Definition fill (x : sarg) (l : list sarg) : list sarg :=
    map (fun a => match a with STest => x | _ => a end) l.

  Definition run (f : string) (args : list sarg) : val := call 12 f (map arg_val args) [].
End Sem.

(* ------------------------------------------------------------------------------------------ verdicts *)
(** one table entry: function, engine, tested position, call vector with [STest] in that position *)
Record entry := mkEntry { e_fun : string; e_eng : string; e_pos : nat; e_args : list sarg }.

Section Verdict.
  Variable P : prims.
  Variable T : table.

  Definition res_str (c : string) (e : entry) : val := run P T (e_eng e) (e_fun e) (fill (SStr c) (e_args e)).
  Definition res_col (c : string) (e : entry) : val := run P T (e_eng e) (e_fun e) (fill (SCol c) (e_args e)).

  (** the model decides the entry: neither evaluation left the modelled fragment *)
  Definition decided (c : string) (e : entry) : bool :=
    negb (val_unk (res_str c e)) && negb (val_unk (res_col c e)).

  (** C16 for one entry: when the col(name) form is a valid call, the name form builds the same expression *)
  Definition holds (c : string) (e : entry) : bool :=
    if is_err (res_col c e) then true else val_eqb (res_str c e) (res_col c e).

  (** E = same expression, D = different expression, R = only the name form raises, B = the col() form raises,
      U = undecided by the model *)
  Definition verdict (c : string) (e : entry) : string :=
    if negb (decided c e) then "U"
    else if is_err (res_col c e) then "B"
    else if is_err (res_str c e) then "R"
    else if val_eqb (res_str c e) (res_col c e) then "E" else "D".

  Definition key_eqb (k : string * string * nat) (e : entry) : bool :=
    let '(f, g, p) := k in String.eqb f (e_fun e) && String.eqb g (e_eng e) && Nat.eqb p (e_pos e).
  Definition listed (ks : list (string * string * nat)) (e : entry) : bool := existsb (fun k => key_eqb k e) ks.

  (** both at once, evaluating each call form a single time (vm_compute is call-by-value: [if] keeps it lazy) *)
  Definition judge (c : string) (e : entry) : bool * bool :=
    let rs := res_str c e in
    let rc := res_col c e in
    (negb (val_unk rs) && negb (val_unk rc), if is_err rc then true else val_eqb rs rc).
  Lemma judge_spec : forall c e, judge c e = (decided c e, holds c e).
  Proof. reflexivity. Qed.

  (** the reflection: every decided entry outside [bad] satisfies the property, for every probe name *)
  Definition all_ok (names : list string) (bad : list (string * string * nat)) (es : list entry) : bool :=
    forallb (fun e => if listed bad e then true
                      else forallb (fun c => let (d, h) := judge c e in if d then h else true) names) es.

  Theorem all_ok_sound : forall names bad es,
    all_ok names bad es = true ->
    forall e c, In e es -> In c names -> decided c e = true -> listed bad e = false -> holds c e = true.
  Proof.
    intros names bad es Hall e c He Hc Hd Hb.
    unfold all_ok in Hall. rewrite forallb_forall in Hall.
    specialize (Hall e He). rewrite Hb in Hall. rewrite forallb_forall in Hall. specialize (Hall c Hc).
    rewrite judge_spec in Hall. rewrite Hd in Hall. exact Hall.
  Qed.

  (** the reflection can be checked name by name (the per-name obligations are compiled in parallel) *)
  Lemma all_ok_nil : forall bad es, all_ok [] bad es = true.
  Proof.
    intros bad es. unfold all_ok. apply forallb_forall. intros e _. destruct (listed bad e); reflexivity.
  Qed.
  Lemma all_ok_cons : forall a names bad es,
    all_ok [a] bad es = true -> all_ok names bad es = true -> all_ok (a :: names) bad es = true.
  Proof.
    intros a names bad es Ha Hn. unfold all_ok in *. rewrite forallb_forall in *.
    intros e He. specialize (Ha e He). specialize (Hn e He).
    destruct (listed bad e); [reflexivity|].
    cbn [forallb] in *. rewrite andb_true_r in Ha. rewrite Ha. exact Hn.
  Qed.

  (** a listed defect is a genuine counterexample of the model: some vector with that key is decided and fails *)
  Definition refuted (c : string) (k : string * string * nat) (es : list entry) : bool :=
    existsb (fun e => if key_eqb k e then (let (d, h) := judge c e in if d then negb h else false) else false) es.

  Lemma refuted_sound : forall c k es, refuted c k es = true ->
    exists e, In e es /\ key_eqb k e = true /\ decided c e = true /\ holds c e = false.
  Proof.
    intros c k es H. unfold refuted in H. apply existsb_exists in H. destruct H as [e [He Hb]].
    rewrite judge_spec in Hb.
    destruct (key_eqb k e) eqn:Hk; [|discriminate].
    destruct (decided c e) eqn:Hd; [|discriminate].
    exists e. repeat split; try assumption. apply negb_true_iff. exact Hb.
  Qed.

  (** what [holds] means, unfolded: equal results unless the col() form itself raises *)
  Lemma holds_spec : forall c e, holds c e = true ->
    is_err (res_col c e) = false -> val_eqb (res_str c e) (res_col c e) = true.
  Proof. intros c e H Hne. unfold holds in H. rewrite Hne in H. exact H. Qed.
End Verdict.

(* ------------------------------------------------------------------------------------------ generic facts *)
(** [val_eqb]/[node_eqb] are sound: true only on identical trees (so "same expression" is real equality) *)
Lemma node_eqb_eq : forall a b, node_eqb a b = true -> a = b.
Proof.
  fix IH 1. intros a b H. destruct a, b; simpl in H; try discriminate;
    try (apply String.eqb_eq in H; subst; reflexivity).
  - apply Bool.eqb_prop in H. subst. reflexivity.
  - reflexivity.
  - apply andb_true_iff in H. destruct H as [Ht Hk]. apply String.eqb_eq in Ht. subst. f_equal.
    revert kids0 Hk. induction kids as [|x r IHr]; intros [|y r2] Hk; try discriminate; try reflexivity.
    apply andb_true_iff in Hk. destruct Hk as [Hx Hr]. f_equal; [apply IH; exact Hx | apply IHr; exact Hr].
Qed.

(** the coercion facts the property rests on, for any table and engine, under the intended primitive facts *)
Section Coercions.
  Variable P : prims.
  Hypothesis Hcol : col_str_is_column P = true.
  Hypothesis Hens : ensure_col_calls_col P = true.
  Hypothesis Hlit : lit_str_is_literal P = true.
  Hypothesis Hbin : binop_str_is_literal P = true.

  Lemma ensure_col_name_is_col : forall c, ensure_col P (VStr c) = ensure_col P (to_col P (VStr c)).
  Proof. intros c. unfold ensure_col, to_col. rewrite Hens, Hcol. reflexivity. Qed.

  Lemma lit_name_is_not_col : forall c, lit P (VStr c) <> to_col P (VStr c).
  Proof. intros c. unfold lit, to_col. rewrite Hlit, Hcol. discriminate. Qed.

  Lemma operator_makes_literal : forall a c,
    mem "add" (col_ops P) = true ->
    binop P "add" (VCol a) (VStr c) = VCol (NN "op:add" [unalias a; NLit c]).
  Proof. intros a c Hm. unfold binop. simpl. rewrite Hm. unfold operand. simpl. rewrite Hbin. reflexivity. Qed.
End Coercions.
